#!/usr/bin/env python3
"""sweep.py <unit> [max_per_fn] [jobs]: development-time mutation sweep over the functions a unit has under contract.

For every contracted function with a body, one-token changes are made to one source line at a time
(comparison flips, && / ||, +1 / -1 dropped, true / false, a dropped `continue` / call statement), each on
a scratch copy of /repo's src, and the unit is re-verified (vx/try.py).  Outcomes:
  killed     a named obligation fails
  undecided  anchor lost / unsupported / rlimit
  compile    the changed text is not Rust that type-checks (ignored)
  SURVIVED   every obligation still verifies: an equivalent change, or a hole in the contracts -- to be read by hand
Nothing here is registered in MANIFEST.json; results go to /verif/sweep/<unit>.json."""
import sys, os, re, json, subprocess, tempfile, shutil, random
from concurrent.futures import ThreadPoolExecutor
sys.path.insert(0, "/verif")
from vx import unit

U = sys.argv[1]
MAXF = int(sys.argv[2]) if len(sys.argv) > 2 else 6
JOBS = int(sys.argv[3]) if len(sys.argv) > 3 else 6
REPO = os.environ.get("VX_REPO", "/repo")
spec = unit.parse_spec("/verif/specs/%s.vx" % U)
res = unit.build_unit(spec, "/tmp/vxtry/sweep_%s.rs" % U)
fns = [f for f in res["info"]["functions"] if f.get("contract") and f.get("has_body") and f.get("file")]

OPS = [
    (r"(?<![<>=!-])<=(?!=)", "<"), (r"(?<![<>=!-])>=(?!=)", ">"),
    (r"(?<![<>=!\-&|:])<(?![<=:])(?= )", "<="), (r"(?<![<>=!\-|&])>(?![>=])(?= )", ">="),
    (r"==", "!="), (r"!=", "=="), (r"&&", "||"), (r"\|\|", "&&"),
    (r" \+ 1\b", ""), (r" - 1\b", ""), (r" \+= 1;", " += 2;"), (r"\btrue\b", "false"), (r"\bfalse\b", "true"),
    (r"^(\s*)continue;", r"\1"), (r"^(\s*)break;", r"\1"), (r"\breturn Ok\(true\)", "return Ok(false)"),
    (r"\breturn Ok\(false\)", "return Ok(true)"), (r"^(\s*)(self\.[\w.]+\([^;]*\));$", r"\1"), (r"\.is_some\(\)", ".is_none()"),
    (r"\.is_none\(\)", ".is_some()"), (r"\bSome\(0\)", "Some(1)"), (r" \* ", " + "), (r" / ", " * "), (r"\b0\.\.", "1.."),
]
random.seed(1)
muts = []
for f in fns:
    path = os.path.join(REPO, f["file"])
    lines = open(path).read().split("\n")
    cands = []
    for ln in range(f["line"], f["line_end"] - 1):   # 1-based line numbers; skip the signature's first line
        t = lines[ln]
        if t.strip().startswith("//") or not t.strip():
            continue
        code = t.split("//")[0]
        for rx, rp in OPS:
            for m in re.finditer(rx, code):
                new = code[:m.start()] + m.expand(rp) + code[m.end():]
                if new != code:
                    cands.append((f["fn"], f["file"], ln, t, new))
    random.shuffle(cands)
    muts += cands[:MAXF]

def run(mt):
    fn, file, ln, old, new = mt
    scr = tempfile.mkdtemp(prefix="vx_sw_")
    try:
        subprocess.run(["rsync", "-a", "--exclude", "target", "--exclude", ".git", REPO + "/", scr + "/"], check=True)
        p = os.path.join(scr, file)
        L = open(p).read().split("\n")
        L[ln] = new
        open(p, "w").write("\n".join(L))
        out = os.path.join(scr, "unit.rs")
        r = subprocess.run([sys.executable, "/verif/vx/try.py", "/verif/specs/%s.vx" % U, out], capture_output=True, text=True,
                           env=dict(os.environ, VX_REPO=scr), timeout=900)
        o = r.stdout
        if "COMPILE:" in o:
            st = "compile"
        elif re.search(r"^FAIL ", o, re.M):
            st = "killed"
        elif "UNDECIDED" in o:
            st = "undecided"
        elif re.search(r"^verified \d+ errors 0", o, re.M):
            st = "SURVIVED"
        else:
            st = "other"
        first = next((l for l in o.split("\n") if l.startswith(("FAIL", "UNDECIDED", "COMPILE"))), "")[:160]
        return {"fn": fn, "file": file, "line": ln + 1, "old": old.strip(), "new": new.strip(), "status": st, "first": first}
    except subprocess.TimeoutExpired:
        return {"fn": fn, "file": file, "line": ln + 1, "old": old.strip(), "new": new.strip(), "status": "undecided", "first": "timeout"}
    finally:
        shutil.rmtree(scr, ignore_errors=True)

print("unit %s: %d contracted functions, %d mutants" % (U, len(fns), len(muts)), flush=True)
outs = []
with ThreadPoolExecutor(max_workers=JOBS) as ex:
    for r in ex.map(run, muts):
        outs.append(r)
        if r["status"] in ("SURVIVED", "other"):
            print("%-9s %s:%d %s | %s  ->  %s" % (r["status"], r["file"], r["line"], r["fn"], r["old"], r["new"]), flush=True)
cnt = {}
for r in outs:
    cnt[r["status"]] = cnt.get(r["status"], 0) + 1
print("SUMMARY", U, cnt)
os.makedirs("/verif/sweep", exist_ok=True)
json.dump({"unit": U, "counts": cnt, "mutants": outs}, open("/verif/sweep/%s.json" % U, "w"), indent=1)
