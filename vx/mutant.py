#!/usr/bin/env python3
"""mutant.py <patch.diff> <PROP> [<PROP>...] : apply a patch to a scratch copy of /repo, run the checks, clean up"""
import sys, os, subprocess, tempfile, shutil
patch = os.path.abspath(sys.argv[1]); props = sys.argv[2:]
scr = tempfile.mkdtemp(prefix="vx_mut_")
try:
    subprocess.run(["rsync", "-a", "--exclude", "target", "--exclude", ".git", "/repo/", scr + "/"], check=True)
    r = subprocess.run(["patch", "-p1", "-s", "-d", scr, "-i", patch], capture_output=True, text=True)
    if r.returncode != 0:
        print("PATCH FAILED", r.stdout, r.stderr); sys.exit(3)
    env = dict(os.environ, VX_REPO=scr)
    for p in props:
        r = subprocess.run([sys.executable, "/verif/check.py", p, "--tier", "quick"], capture_output=True, text=True, env=env)
        print("== %s exit=%d" % (p, r.returncode))
        for l in r.stdout.split("\n"):
            if l.startswith(("VIOLATION", "UNDECIDED", "KNOWN", "OK")): print("   ", l[:260])
finally:
    shutil.rmtree(scr, ignore_errors=True)
    # evidence files were rewritten from a mutated tree: caller should re-run the checks on /repo
