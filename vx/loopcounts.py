#!/usr/bin/env python3
"""loopcounts.py: record, per unit and contracted function, how many loops the source has on the tree the contract files
were written for (run on the unchanged tree; output committed as specs/loopcounts.json)."""
import sys, os, json, glob
sys.path.insert(0, "/verif")
from vx import unit
out = {}
for p in sorted(glob.glob("/verif/specs/*.vx")):
    sp = unit.parse_spec(p)
    res = unit.build_unit(sp, "/tmp/vxtry/lc_%s.rs" % sp.name)
    out[sp.name] = {f["fn"]: f.get("n_loops", 0) for f in res["info"]["functions"] if f.get("contract")}
json.dump(out, open("/verif/specs/loopcounts.json", "w"), indent=1, sort_keys=True)
print({k: sum(v.values()) for k, v in out.items()})
