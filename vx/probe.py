import sys, os
sys.path.insert(0, '/verif')
from vx import unit, verus
spec = unit.parse_spec(sys.argv[1])
fn = sys.argv[2]
out = '/tmp/vxtry/%s_probe.rs' % spec.name
res = unit.build_unit(spec, out, probe_fn=fn)
r = verus.run_verus(out, res['linemap'], res['info'], extra_args=spec.verus_args)
print("verified", r.verified, "errors", r.errors, r.compile_errors, r.undecided)
for f in r.failures: print("FAIL", f['key'][:150])
