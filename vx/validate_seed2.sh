#!/bin/bash
# validate_seed2.sh <PROP> <k> <newid>: confirm a round-2 seeded change in its scratch worktree, then keep it under /verif/seeded/<newid>
P=$1; K=$2; NEW=$3
R=${ROUND:-2}; WT=/tmp/wt${R}_$P; OUT=/tmp/out${R}_$P/mutant$K
cd $WT || exit 9
git checkout -q -- . ; git clean -fdq -e target
export CARGO_NET_OFFLINE=true
cargo build --offline >/dev/null 2>&1
bash $OUT/demo.sh $WT/target/debug/n2 >/tmp/demo2_$P$K.clean.log 2>&1; CLEAN=$?
git apply $OUT/patch.diff || { echo "$P/$K APPLY-FAILED"; exit 8; }
cargo build --offline >/dev/null 2>&1; BUILD=$?
cargo test --offline >/tmp/suite2_$P$K.log 2>&1; SUITE=$?
bash $OUT/demo.sh $WT/target/debug/n2 >/tmp/demo2_$P$K.mut.log 2>&1; MUT=$?
git checkout -q -- . ; git clean -fdq -e target
cargo build --offline >/dev/null 2>&1
echo "$P/$K demo_clean_rc=$CLEAN build_rc=$BUILD suite_rc=$SUITE demo_mutant_rc=$MUT"
if [ $CLEAN -eq 0 ] && [ $BUILD -eq 0 ] && [ $SUITE -eq 0 ] && [ $MUT -ne 0 ]; then
  mkdir -p /verif/seeded/$NEW
  cp $OUT/patch.diff $OUT/demo.sh $OUT/README.md /verif/seeded/$NEW/ 2>/dev/null
  python3 - "$OUT/meta.json" "/verif/seeded/$NEW/meta.json" "$P" "$K" <<'PY'
import json,sys,subprocess
m=json.load(open(sys.argv[1]))
h=subprocess.run(['git','-C','/repo','log','-1','--format=%h'],capture_output=True,text=True).stdout.strip()
m['confirmed']={"by":"main session, scratch worktree /tmp/wt_%s at /repo commit %s (removed afterwards)"%(sys.argv[3],h),
  "ran":"vx/validate_seed2.sh: demo on clean tree; git apply patch.diff; cargo build --offline; cargo test --offline (full suite); demo again; git checkout",
  "round":int(__import__("os").environ.get("ROUND","2")),"results":{"demo_passes_without_change":True,"compiles":True,"suite_passes_with_change":True,"demo_fails_with_change":True}}
json.dump(m,open(sys.argv[2],'w'),indent=1)
PY
  echo "KEPT /verif/seeded/$NEW"
else
  echo "REJECTED $P/$K"
fi
