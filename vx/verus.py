"""Run Verus on a generated unit and turn its diagnostics into obligation records."""
import json, os, re, subprocess, time

PROOF_FAIL = [
    ("postcondition not satisfied", "post"),
    ("precondition not satisfied", "pre"),
    ("invariant not satisfied", "inv"),
    ("assertion failed", "assert"),
    ("possible arithmetic underflow/overflow", "overflow"),
    ("possible division by zero", "divzero"),
    ("decreases not satisfied", "decreases"),
    ("could not prove termination", "decreases"),
    ("possible bit shift underflow/overflow", "overflow"),
    ("unreachable", "unreachable"),
    ("postcondition not satisfied", "post"),
    ("failed this postcondition", "post"),
    ("unable to prove post-condition of closure", "closure-post"),
    ("unable to prove pre-condition of closure", "closure-pre"),
    ("fails to satisfy `callee.requires(args)`", "closure-pre"),
    ("may not be in bounds", "bounds"),
    ("index in bounds for this access", "bounds"),
    ("recommendation not met", "recommends"),
    ("constructed value may fail to meet its declared type invariant", "typeinv"),
]
UNDECIDED_MARKERS = [
    "rlimit", "Resource limit", "resource limit", "timed out", "not supported", "unsupported",
    "The verifier does not yet support", "is not supported",
]


class VerusResult:
    def __init__(self):
        self.ok = False
        self.failures = []      # dicts
        self.undecided = []     # strings
        self.compile_errors = []
        self.verified = 0
        self.errors = 0
        self.fn_times = {}      # fn -> (ms, success)
        self.smt_ms = 0
        self.total_ms = 0
        self.raw_stderr = ""
        self.cmd = ""
        self.wall_s = 0.0


def chase(span, unit_basename):
    """follow macro expansion until the span is inside the unit file"""
    s = span
    seen = 0
    while s is not None and seen < 20:
        if os.path.basename(s.get("file_name", "")) == unit_basename:
            return s
        exp = s.get("expansion")
        s = exp.get("span") if exp else None
        seen += 1
    return None


def origin_at(linemap, line):
    if 1 <= line <= len(linemap):
        return linemap[line - 1]
    return None


def fn_for_origin(info, o):
    if o is None:
        return None
    if o[0] == "spec" and len(o) > 3 and o[3]:
        return o[3]
    if o[0] in ("repo", "edit"):
        f, ln = (o[1], o[2]) if o[0] == "repo" else (o[2], o[3])
        best = None
        for fn in info["fnranges"]:
            if fn["file"] == f and fn["line"] <= ln <= fn["line_end"]:
                if best is None or fn["line"] >= best["line"]:
                    best = fn
        return best["fn"] if best else None
    return None


def run_verus(unit_path, linemap, info, extra_args=(), timeout=1800):
    r = VerusResult()
    cmd = ["verus", os.path.basename(unit_path), "--output-json", "--time", "--multiple-errors", "20",
           "--error-format=json"] + list(extra_args)
    r.cmd = " ".join(cmd)
    t0 = time.time()
    try:
        p = subprocess.run(cmd, cwd=os.path.dirname(unit_path), capture_output=True, text=True, timeout=timeout)
    except subprocess.TimeoutExpired:
        r.undecided.append("verus timed out after %ds" % timeout)
        return r
    r.wall_s = time.time() - t0
    r.raw_stderr = p.stderr
    out = None
    try:
        out = json.loads(p.stdout)
    except Exception:
        m = re.search(r"\{.*\}\s*$", p.stdout, re.S)
        if m:
            try:
                out = json.loads(m.group(0))
            except Exception:
                out = None
    base = os.path.basename(unit_path)
    text_lines = open(unit_path).read().split("\n")
    occ = {}
    for l in p.stderr.split("\n"):
        l = l.strip()
        if not l.startswith("{"):
            continue
        try:
            dg = json.loads(l)
        except Exception:
            continue
        if dg.get("level") not in ("error",):
            continue
        msg = dg.get("message", "")
        if msg.startswith("aborting due to"):
            continue
        spans = dg.get("spans", [])
        prim = None
        labels = []
        for s in spans:
            cs = chase(s, base)
            if cs is None:
                continue
            if s.get("is_primary") and prim is None:
                prim = cs
            labels.append((s.get("label"), cs))
        kind = None
        for pat, k in PROOF_FAIL:
            if pat in msg:
                kind = k
                break
        if dg.get("code") is not None and kind is None:
            r.compile_errors.append("%s (unit line %s)" % (msg, prim["line_start"] if prim else "?"))
            continue
        if kind is None:
            where = ""
            if prim:
                o = origin_at(linemap, prim["line_start"])
                where = " at %s" % (o,)
            if any(mk in msg for mk in UNDECIDED_MARKERS):
                r.undecided.append(msg + where)
            else:
                r.compile_errors.append(msg + where + (" (unit line %s)" % (prim["line_start"] if prim else "?")))
            continue
        # proof failure
        porigin = origin_at(linemap, prim["line_start"]) if prim else None
        fn = fn_for_origin(info, porigin)
        if kind == "post":
            for lab, cs in labels:
                if lab and ("function body" in lab or "exit" in lab or "return" in lab):
                    o2 = origin_at(linemap, cs["line_start"])
                    f2 = fn_for_origin(info, o2)
                    if f2:
                        fn = f2
                        porigin = o2
        clause = None
        props = None
        clause_text = None
        stub_tags = []
        for lab, cs in labels:
            o = origin_at(linemap, cs["line_start"])
            if o and o[0] == "spec":
                # a sidecar clause is involved
                for c in info["clauses"]:
                    if c["spec_line"] == o[2] and c.get("file") == o[1]:
                        clause = c
                        break
                if clause is None:
                    # multi-line clause: nearest preceding clause line of same fn
                    cands = [c for c in info["clauses"] if c["spec_line"] <= o[2] and c.get("file") == o[1] and (len(o) < 4 or c["fn"] == o[3])]
                    if cands:
                        clause = max(cands, key=lambda c: c["spec_line"])
                if clause is not None and clause.get("where") == "stub":
                    # a precondition of an assumed contract failed at a call site: the obligation belongs to the CALLER (its
                    # properties), plus the properties the failed clause is explicitly tagged with
                    stub_tags = list(clause["props"])
                    clause_text = clause["text"]
                    clause = None
                    continue
                if clause is not None and (lab or not props):
                    props = clause["props"]
                    clause_text = clause["text"]
                    if fn is None:
                        fn = clause["fn"]
        if fn is None:
            for lab, cs in labels:
                fn = fn_for_origin(info, origin_at(linemap, cs["line_start"]))
                if fn:
                    break
        if props is None:
            props = None
            for f in info["functions"]:
                if f["fn"] == fn:
                    props = f["props"]
            if props is None:
                props = list(info.get("default_props", []))
        if stub_tags:
            props = list(props) + [t for t in stub_tags if t not in props]
        expr_text = ""
        if prim:
            ls, le = prim["line_start"], prim["line_end"]
            if ls == le and 1 <= ls <= len(text_lines):
                expr_text = text_lines[ls - 1][prim["column_start"] - 1:prim["column_end"] - 1]
            elif 1 <= ls <= len(text_lines):
                expr_text = text_lines[ls - 1][prim["column_start"] - 1:]
        callee_clause = None
        for lab, cs in labels:
            if lab and "failed precondition" in lab:
                ls = cs["line_start"]
                if 1 <= ls <= len(text_lines):
                    callee_clause = " ".join(text_lines[ls - 1].split())
                else:
                    callee_clause = "%s:%d" % (cs.get("file_name"), ls)
        if kind == "pre" and callee_clause is None:
            # precondition in vstd / std spec (index bounds, unwrap, panic)
            for s in spans:
                if s.get("label") and "failed precondition" in s["label"]:
                    callee_clause = "std:" + os.path.basename(s.get("file_name", "?"))
            if prim is not None and "panic" in (prim.get("text") or [{}])[0].get("text", "") if prim.get("text") else False:
                kind = "panic"
        if "panic!" in expr_text or "unreachable!" in expr_text or "assert!" in expr_text or "unimplemented!" in expr_text:
            kind = "panic"
        ident = " ".join((clause_text or callee_clause or "").split())
        ident = re.sub(r"\s*//.*$", "", ident)
        ek = " ".join(expr_text.split())[:120]
        base_key = "%s|%s|%s|%s" % (fn, kind, ident[:160], ek)
        n = occ.get(base_key, 0)
        occ[base_key] = n + 1
        key = base_key + "|#%d" % n
        r.failures.append({
            "key": key, "fn": fn, "kind": kind, "props": props, "message": msg,
            "clause": clause_text or callee_clause, "expr": ek,
            "origin": list(porigin) if porigin else None,
            "unit_line": prim["line_start"] if prim else None,
            "rendered": dg.get("rendered", "")[:4000],
        })
    if out is not None:
        vr = out.get("verification-results", {})
        r.verified = vr.get("verified", 0)
        r.errors = vr.get("errors", 0)
        tm = out.get("times-ms", {})
        r.total_ms = tm.get("total", 0)
        smt = tm.get("smt", {})
        r.smt_ms = smt.get("total", 0)
        for mod in smt.get("smt-run-module-times", []):
            for f in mod.get("function-breakdown", []):
                r.fn_times[f["function"]] = (f.get("time", 0), f.get("success", False), f.get("rlimit", 0))
        r.ok = bool(vr.get("success")) and not r.failures and not r.compile_errors
        if vr.get("encountered-vir-error"):
            if not r.compile_errors and not r.undecided:
                r.compile_errors.append("verus reported a VIR error")
    else:
        if not r.compile_errors and not r.undecided:
            r.compile_errors.append("verus produced no JSON result; stderr tail: " + p.stderr[-800:])
    # rlimit / timeouts reported as failures of kind? Verus reports them as errors with message containing 'rlimit'
    return r
