"""Assemble a Verus unit file from /repo's working tree + a sidecar spec.

See DESIGN.md §2.  The unit is: preamble text + for every @module the selected
items' *source bytes* (with the mechanical rewrite edits R1..R11) + contracts woven
as added attribute lines.  A line map from unit line -> origin is kept so verifier
messages are reported against /repo file:line or the sidecar clause.
"""
import json, os, re, subprocess, hashlib, tempfile, shutil

VERIF = os.path.dirname(os.path.dirname(os.path.abspath(__file__)))
REPO = os.environ.get("VX_REPO", "/repo")
EXTRACT = os.path.join(VERIF, "vx-extract", "target", "release", "vx-extract")


class Undecided(Exception):
    """Extraction/weaving could not be carried out (lost anchor, missing item...). exit 2"""


def norm(s):
    return " ".join(s.split())


# --------------------------------------------------------------------------- spec parsing

class FnSpec:
    def __init__(self, path, props, specfile, line):
        self.path = path          # module::Type::method
        self.props = props
        self.specfile = specfile
        self.line = line
        self.spec = []            # [(lineno, text)]
        self.loops = []           # [(anchor, [(lineno,text)], occurrence)]
        self.r6 = {}              # n -> [(lineno,text)]
        self.r6_optional = set()
        self.optional = set()     # ids of hint sections (%loop? / %proof? / %ghost?) that are skipped when their anchor is gone
        self.proofs = []          # [(where, anchor, occ, [(lineno,text)])]
        self.stub = False
        self.trusted_note = None
        self.attrs = []
        self.loopghosts = {}
        self.renames = []         # function-local R9 renames (%rename /a/ -> /b/)


class ModSpec:
    def __init__(self, name, file):
        self.name = name
        self.file = file          # repo-relative source path or None (raw module)
        self.items = []           # selected item paths (local to the file)
        self.raw_pre = []         # raw lines emitted at module start [(lineno,text)]
        self.raw_post = []
        self.no_uses = False
        self.keep_spawn = False
        self.drop_uses = []       # regexes of `use` items to drop
        self.renames = []         # (regex, repl) R9-style textual renames


class UnitSpec:
    def __init__(self, name):
        self.name = name
        self.preambles = []       # file paths (relative to /verif/specs)
        self.modules = []
        self.fns = {}             # path -> FnSpec
        self.default_props = []
        self.specfile = None
        self.assumptions = []
        self.verus_args = []


def parse_props(tok):
    return [p for p in tok.split(",") if p]


def parse_spec(path):
    u = UnitSpec(os.path.basename(path).split(".")[0])
    u.specfile = path
    cur_mod = None
    cur_fn = None
    section = None   # list to append (lineno,text) to
    def load_lines(pth):
        res = []
        for n, l in enumerate(open(pth).read().split("\n")):
            if l.strip().startswith("@include"):
                inc = os.path.join(os.path.dirname(pth), l.split()[1])
                res.extend(load_lines(inc))
            else:
                res.append((pth, n + 1, l))
        return res
    lines = load_lines(path)
    i = 0
    while i < len(lines):
        path, lineno, ln = lines[i]
        i += 1
        s = ln.strip()
        if section is None and (not s or s.startswith("#")):
            continue
        if s.startswith("@args"):
            u.verus_args += s.split()[1:]
        elif s.startswith("@assume"):
            u.assumptions.append(s[len("@assume"):].strip())
        elif s.startswith("@unit"):
            u.name = s.split()[1]
            for tok in s.split()[2:]:
                if tok.startswith("props="):
                    u.default_props = parse_props(tok[6:])
        elif s.startswith("@preamble"):
            u.preambles.append(s.split()[1])
        elif s.startswith("@module"):
            parts = s.split()
            existing = [mm for mm in u.modules if mm.name == parts[1]]
            if existing:
                cur_mod = existing[0]
            else:
                cur_mod = ModSpec(parts[1], parts[2] if len(parts) > 2 and parts[2] != "-" else None)
                u.modules.append(cur_mod)
            for tok in parts[3:]:
                if tok == "nouses":
                    cur_mod.no_uses = True
                if tok == "keepspawn":
                    cur_mod.keep_spawn = True
            cur_fn = None
            section = None
        elif s.startswith("@dropuse"):
            cur_mod.drop_uses.append(s[len("@dropuse"):].strip())
        elif s.startswith("@rename"):
            m = re.match(r"@rename\s+/(.*)/\s*->\s*/(.*)/\s*$", s)
            if not m:
                raise Undecided("bad @rename at %s:%d" % (path, lineno))
            cur_mod.renames.append((m.group(1), m.group(2)))
        elif s.startswith("@items"):
            cur_fn = None
            section = "items"
        elif s.startswith("@rawpre"):
            section = cur_mod.raw_pre
        elif s.startswith("@rawpost"):
            section = cur_mod.raw_post
        elif s == "@end":
            section = None
            cur_fn = None
        elif s.startswith("@fn") or s.startswith("@stub"):
            rest = s.split(None, 1)[1]
            props = list(u.default_props)
            mm = re.search(r"\s+props=(\S+)\s*$", rest)
            if mm:
                props = parse_props(mm.group(1))
                rest = rest[:mm.start()]
            parts = [None, rest.strip()]
            cur_fn = FnSpec(parts[1], props, path, lineno)
            cur_fn.stub = s.startswith("@stub")
            if parts[1] in u.fns:
                raise Undecided("duplicate @fn %s at %s:%d" % (parts[1], path, lineno))
            u.fns[parts[1]] = cur_fn
            section = cur_fn.spec
        elif (s.startswith("%loop ") or s.startswith("%loop? ")) and cur_fn is not None:
            m = re.match(r'%loop\??\s+"(.*)"(?:\s+#(-?\d+))?\s*$', s)
            if not m:
                raise Undecided("bad %%loop at %s:%d" % (path, lineno))
            sec = []
            cur_fn.loops.append((m.group(1), sec, int(m.group(2) or 0)))
            if s.startswith("%loop?"):
                # optional: a function that no longer has this loop simply goes without the invariant
                cur_fn.optional.add(id(sec))
            section = sec
        elif s.startswith("%loopghost") and cur_fn is not None:
            m = re.match(r'%loopghost\s+"(.*)"\s*$', s)
            if not m:
                raise Undecided("bad %%loopghost at %s:%d" % (path, lineno))
            sec = []
            cur_fn.loopghosts[m.group(1)] = sec
            section = sec
        elif s.startswith("%r6") and cur_fn is not None:
            # `%r6? n`: the invariant is only a hint for the n-th scan loop IF the code has one (a change that removes the
            # scan then stands on its own obligations instead of being "anchor lost")
            n = int(s.split()[1])
            sec = []
            cur_fn.r6[n] = sec
            if s.startswith("%r6?"):
                cur_fn.r6_optional.add(n)
            section = sec
        elif s.startswith("%proof") and cur_fn is not None:
            m = re.match(r'%proof\??\s+(before|afterblock|afterstmt|afterloop|after|start|inloop|endloop|end)(?:\s+"(.*)")?(?:\s+#(-?\d+))?\s*$', s)
            if not m:
                raise Undecided("bad %%proof at %s:%d" % (path, lineno))
            sec = []
            cur_fn.proofs.append((m.group(1), m.group(2), int(m.group(3) or 0), sec, "proof!"))
            if s.startswith("%proof?"):
                cur_fn.optional.add(id(sec))
            section = sec
        elif s.startswith("%raw") and cur_fn is not None:
            m = re.match(r'%raw\s+(before|after|start)(?:\s+"(.*)")?(?:\s+#(-?\d+))?\s*$', s)
            if not m:
                raise Undecided("bad %%raw at %s:%d" % (path, lineno))
            sec = []
            cur_fn.proofs.append((m.group(1), m.group(2), int(m.group(3) or 0), sec, None))
            section = sec
        elif s.startswith("%ghost") and cur_fn is not None:
            m = re.match(r'%ghost\??\s+(before|afterblock|afterstmt|afterloop|after|start|inloop|endloop|end)(?:\s+"(.*)")?(?:\s+#(-?\d+))?\s*$', s)
            if not m:
                raise Undecided("bad %%ghost at %s:%d" % (path, lineno))
            sec = []
            cur_fn.proofs.append((m.group(1), m.group(2), int(m.group(3) or 0), sec, "proof_decl!"))
            if s.startswith("%ghost?"):
                cur_fn.optional.add(id(sec))
            section = sec
        elif s.startswith("%rename") and cur_fn is not None:
            m = re.match(r"%rename\s+/(.*)/\s*->\s*/(.*)/\s*$", s)
            if not m:
                raise Undecided("bad %%rename at %s:%d" % (path, lineno))
            cur_fn.renames.append((m.group(1), m.group(2)))
        elif s.startswith("%attr") and cur_fn is not None:
            cur_fn.attrs.append(s[len("%attr"):].strip())
        elif s.startswith("%spec") and cur_fn is not None:
            section = cur_fn.spec
        else:
            if section == "items":
                if s and not s.startswith("#"):
                    cur_mod.items.append(s)
            elif isinstance(section, list):
                section.append((lineno, ln))
            else:
                raise Undecided("unexpected line at %s:%d: %s" % (path, lineno, s))
    return u


def missing_helpers(compile_errors):
    """names of functions / methods rustc could not resolve in a generated unit (candidates for R21 inlining)"""
    names = set()
    for e in compile_errors or []:
        for rx in (r"cannot find function `(\w+)`", r"no method named `(\w+)` found", r"no function or associated item named `(\w+)`"):
            for m in re.finditer(rx, e):
                names.add(m.group(1))
    return names


# --------------------------------------------------------------------------- extraction

_extract_cache = {}


def extract(relfile, keep_spawn=False):
    full = os.path.join(REPO, relfile)
    key = (full, os.path.getmtime(full), os.path.getsize(full), os.environ.get("VX_INLINE", ""), keep_spawn)
    if key in _extract_cache:
        return _extract_cache[key]
    if not os.path.exists(EXTRACT):
        raise Undecided("vx-extract not built (run MANIFEST.setup_cmd)")
    # R18 pre-pass (source to source, line-preserving): split `for .. in A.chain(B)` loops in two
    raw = open(full, "rb").read()
    pre = subprocess.run([EXTRACT, "--pre", full], capture_output=True)
    if pre.returncode != 0:
        raise Undecided("vx-extract --pre failed on %s: %s" % (relfile, pre.stderr.decode().strip()))
    target = full
    tmpdir = None
    if pre.stdout != raw:
        tmpdir = tempfile.mkdtemp(prefix="vxpre")
        target = os.path.join(tmpdir, os.path.basename(full))
        open(target, "wb").write(pre.stdout)
    try:
        env = dict(os.environ)
        env.pop("VX_KEEP_SPAWN", None)
        if keep_spawn:
            env["VX_KEEP_SPAWN"] = "1"   # module flag `keepspawn`: R5 does not elide thread::spawn (the unit renames it to a stub)
        p = subprocess.run([EXTRACT, target], capture_output=True, text=True, env=env)
    finally:
        if tmpdir:
            shutil.rmtree(tmpdir, ignore_errors=True)
    if p.returncode != 0:
        raise Undecided("vx-extract failed on %s: %s" % (relfile, p.stderr.strip()))
    d = json.loads(p.stdout)
    d["src"] = pre.stdout
    _extract_cache[key] = d
    return d


class Seg:
    __slots__ = ("text", "origin")

    def __init__(self, text, origin):
        self.text = text
        self.origin = origin  # ('repo', file, line) | ('spec', file, line, fnpath, props) | ('gen', note)


class Builder:
    def __init__(self):
        self.segs = []
        self.rule_counts = {}
        self.rule_log = []

    def add(self, text, origin):
        if text:
            self.segs.append(Seg(text, origin))

    def gen(self, text, note="gen"):
        self.add(text, ("gen", note))

    def render(self):
        """returns (text, linemap) ; linemap[i] = origin of unit line i+1"""
        out = []
        linemap = []
        cur_line_origin = None
        for seg in self.segs:
            parts = seg.text.split("\n")
            for k, part in enumerate(parts):
                if k > 0:
                    out.append("\n")
                    linemap.append(cur_line_origin)
                    cur_line_origin = None
                if part:
                    out.append(part)
                    o = seg.origin
                    if o[0] in ("repo", "spec", "pre"):
                        o = (o[0], o[1], o[2] + k) + tuple(o[3:])
                    # prefer repo/spec origin over gen on a shared line
                    if cur_line_origin is None or (cur_line_origin[0] in ("gen",) and o[0] != "gen"):
                        cur_line_origin = o
        linemap.append(cur_line_origin)
        return "".join(out), linemap


def line_of(src, ofs):
    return src.count(b"\n", 0, ofs) + 1


def emit_range(b, d, relfile, a, z, inserts, renames):
    """Emit source bytes [a,z) applying rewrite edits and weave inserts inside.

    inserts: list of (pos, prio, text, origin)."""
    src = d["src"]
    evs = []
    for e in d["edits"]:
        if e["start"] >= a and e["end"] <= z:
            evs.append((e["start"], 1, e["seq"], "edit", e))
    for n, (pos, prio, text, origin) in enumerate(inserts):
        if a <= pos <= z:
            evs.append((pos, 0 if prio < 0 else 2 + prio, n, "ins", (text, origin)))
    evs.sort(key=lambda t: (t[0], t[1], t[2]))
    cur = a

    def put_src(x, y):
        if y > x:
            t = src[x:y].decode("utf-8")
            for rx, rp in renames:
                # a match that spans lines is padded with the newlines it loses, so later lines keep their numbers
                def _pad(m, rp=rp):
                    e = m.expand(rp)
                    return e + "\n" * max(0, m.group(0).count("\n") - e.count("\n"))
                t2 = re.sub(rx, _pad, t)
                if t2 != t:
                    b.rule_counts["R9"] = b.rule_counts.get("R9", 0) + len(re.findall(rx, t))
                    t = t2
            b.add(t, ("repo", relfile, line_of(src, x)))

    for pos, _, _, kind, payload in evs:
        if kind == "edit":
            e = payload
            if e["start"] < cur:
                # overlapping edit (nested rule application): skip, keep deterministic
                raise Undecided("overlapping rewrite edits at %s:%d (%s)" % (relfile, e["line"], e["rule"]))
            put_src(cur, e["start"])
            # R6 loops without a %r6 directive get the default measure of the generated scan loop
            etxt = re.sub(r"/\*@R6INV:\d+\*/", "#[verus_spec(invariant vx_i <= vx_s@.len(), decreases vx_s@.len() - vx_i)] ", e["text"])
            etxt = re.sub(r"/\*@R6RINV:\d+\*/", "#[verus_spec(invariant vx_i <= vx_s@.len(), decreases vx_i)] ", etxt)
            b.add(etxt, ("edit", e["rule"], relfile, e["line"]))
            b.rule_counts[e["rule"]] = b.rule_counts.get(e["rule"], 0) + 1
            b.rule_log.append({"rule": e["rule"], "file": relfile, "line": e["line"], "old": e["old"], "new": e["text"]})
            cur = e["end"]
        else:
            text, origin = payload
            if pos < cur:
                raise Undecided("weave position inside a rewritten range at %s:%d" % (relfile, line_of(src, pos)))
            put_src(cur, pos)
            b.add(text, origin)
            cur = pos
    put_src(cur, z)


def spec_lines_to_text(lines):
    return "\n".join(t for _, t in lines)


def find_anchor(src_text, anchor, occ, what):
    """byte offsets (start,end) of the occ-th whitespace-insensitive occurrence of anchor"""
    toks = anchor.split()
    rx = r"\s*".join(re.escape(t) for t in toks)
    # allow whitespace changes inside tokens around punctuation: normalise by regex on \s*
    ms = list(re.finditer(rx, src_text))
    if len(ms) <= occ or -occ > len(ms):   # a negative ordinal counts from the last occurrence
        raise Undecided("anchor lost (%s): %r" % (what, anchor))
    return ms[occ].start(), ms[occ].end()


def build_unit(u, outpath, probe_fn=None, drop_fns=()):
    """Generate the unit file.  probe_fn: fn path that gets `ensures false` appended
    (reachability probe).  Returns dict with text, linemap, info."""
    b = Builder()
    info = {"functions": [], "stubs": [], "items": [], "clauses": [], "loops": [], "spec_sha": None}
    b.gen("#![feature(proc_macro_hygiene)]\n#![feature(allocator_api)]\n#![allow(unused, non_snake_case, non_camel_case_types, non_upper_case_globals)]\n"
          "use vstd::prelude::*;\n")
    for p in u.preambles:
        if p.startswith("gen:"):
            # generated preamble (bounded checks inside the verifier): vx/<name>.py generate(tier) -> (text, meta)
            import importlib
            gmod = importlib.import_module("vx." + p[4:])
            gtxt, gmeta = gmod.generate(os.environ.get("VX_TIER", "quick"))
            info.setdefault("generated", []).append({"generator": p[4:], **gmeta})
            for n, ln in enumerate(gtxt.split("\n")):
                b.add(ln + "\n", ("pre", p, n + 1))
            continue
        pp = os.path.join(VERIF, "specs", p)
        for n, ln in enumerate(open(pp).read().split("\n")):
            b.add(ln + "\n", ("pre", p, n + 1))
    used_fns = set()
    for m in u.modules:
        b.gen("pub mod %s {\n#[allow(unused_imports)] use vstd::prelude::*;\n#[allow(unused_imports)] use crate::{rustc_hash, anyhow};\n#[allow(unused_imports)] use vstd::std_specs::iter::IteratorSpec;\n" % m.name)
        for lineno, t in m.raw_pre:
            b.add(t + "\n", ("spec", u.specfile, lineno, None, []))
        if m.file:
            d = dict(extract(m.file, m.keep_spawn))
            d["edits"] = [dict(e) for e in d["edits"]]
            items = d["items"]
            src = d["src"]
            by_path = {}
            for idx, it in enumerate(items):
                by_path.setdefault(it["path"], []).append(idx)
            # `use` items verbatim unless dropped
            if not m.no_uses:
                for it in items:
                    if it["kind"] == "use" and not it["cfg_test"]:
                        t = src[it["start"]:it["end"]].decode()
                        if any(re.search(rx, norm(t)) for rx in m.drop_uses):
                            continue
                        if "mod " in it["path"]:
                            continue
                        emit_range(b, d, m.file, it["start"], it["end"], [], [])
                        b.gen("\n")
            selected = []   # item indices in source order
            sel_methods = {}  # impl idx -> [fn idx]
            for sel in m.items:
                if sel == "*const":
                    # every top-level const of the file (so that a change which introduces a constant still extracts)
                    for idx, it in enumerate(items):
                        if it["kind"] == "const" and it.get("parent") is None and idx not in selected:
                            selected.append(idx)
                    continue
                if sel not in by_path:
                    raise Undecided("item not found in %s: %s" % (m.file, sel))
                for idx in by_path[sel]:
                    it = items[idx]
                    if it["kind"] == "fn" and it.get("parent") is not None:
                        sel_methods.setdefault(it["parent"], []).append(idx)
                        if it["parent"] not in selected:
                            selected.append(it["parent"])
                    else:
                        selected.append(idx)
            selected = sorted(set(selected))
            for idx in selected:
                it = items[idx]
                whole = idx not in sel_methods
                if it["kind"] in ("impl", "trait") and (it["kind"] == "trait" or it.get("trait")):
                    b.gen("#[verus_verify]\n")
                if it["kind"] in ("impl", "trait") and not whole:
                    # header + chosen methods + close
                    emit_range(b, d, m.file, it["core_start"], it["brace_open"] + 1, [], m.renames)
                    b.gen("\n")
                    deferred = []
                    for fidx in sorted(set(sel_methods[idx])):
                        emit_fn(b, u, m, d, items, fidx, info, used_fns, probe_fn, deferred)
                    b.gen("}\n")
                    if deferred:
                        # native-syntax stubs need the whole impl inside verus!{}: a second impl block with the same header
                        b.gen("verus! {\n")
                        emit_range(b, d, m.file, it["core_start"], it["brace_open"] + 1, [], m.renames)
                        b.gen("\n")
                        for segs in deferred:
                            for txt, origin in segs:
                                b.add(txt, origin)
                        b.gen("}\n}\n")
                elif it["kind"] in ("impl", "trait"):
                    # whole impl: weave children that have contracts
                    inserts = []
                    for cidx, c in enumerate(items):
                        if c.get("parent") == idx and c["kind"] == "fn":
                            inserts += fn_inserts(u, m, d, c, info, used_fns, probe_fn)
                    emit_range(b, d, m.file, it["core_start"], it["end"], inserts, m.renames)
                    b.gen("\n")
                elif it["kind"] == "fn":
                    emit_fn(b, u, m, d, items, idx, info, used_fns, probe_fn)
                elif it["kind"] in ("const",):
                    b.gen("#[verus_verify]\n")
                    emit_range(b, d, m.file, it["start"], it["end"], [], m.renames)
                    b.gen("\n")
                    info["items"].append("%s::%s" % (m.name, it["path"]))
                elif it["kind"] in ("struct", "enum"):
                    ins = [(it["core_start"], -1, "\n#[verus_verify]\n", ("gen", "verus_verify"))]
                    # keep (filtered) derive attrs: they live in the attr range
                    emit_range(b, d, m.file, it["start"], it["end"], ins, m.renames)
                    b.gen("\n")
                    info["items"].append("%s::%s" % (m.name, it["path"]))
                else:
                    emit_range(b, d, m.file, it["start"], it["end"], [], m.renames)
                    b.gen("\n")
                    info["items"].append("%s::%s" % (m.name, it["path"]))
        for lineno, t in m.raw_post:
            b.add(t + "\n", ("spec", u.specfile, lineno, None, []))
        b.gen("}\n")
    b.gen("fn main() {}\n")
    for path, fs in u.fns.items():
        if path not in used_fns:
            raise Undecided("contract for a function that was not extracted: %s (%s:%d)" % (path, fs.specfile, fs.line))
    text, linemap = b.render()
    with open(outpath, "w") as f:
        f.write(text)
    info["fnranges"] = info["functions"]
    info["default_props"] = list(u.default_props)
    info["rule_counts"] = b.rule_counts
    info["rule_log"] = b.rule_log
    return {"text": text, "linemap": linemap, "info": info}


def emit_fn(b, u, m, d, items, idx, info, used_fns, probe_fn, deferred=None):
    it = items[idx]
    full = "%s::%s" % (m.name, it["path"])
    fs = u.fns.get(full)
    if fs is not None and fs.stub:
        # R8: signature from source, body dropped, assumed contract
        used_fns.add(full)
        src = d["src"]
        spec_txt = spec_lines_to_text(fs.spec)
        mret = re.match(r"^\s*(\w+)\s*=>", spec_txt)
        if (mret and it.get("parent") is not None and not it.get("has_self") and not it.get("inputs", "").strip()
                and items[it["parent"]]["kind"] == "impl" and items[it["parent"]].get("impl_generics", "")):
            # a parameter-less associated fn of a generic impl: the dummy trick below cannot infer the generics;
            # emit the stub in native verus! syntax instead (same signature, named return)
            sig = src[it["sig_start"]:it["sig_end"]].decode()
            outp = it.get("output", "").strip()
            sig2 = sig[:sig.rfind("->")] + "-> (%s: %s)" % (mret.group(1), outp)
            clauses = spec_txt[mret.end():].strip().rstrip(",")
            first = fs.spec[0][0] if fs.spec else fs.line
            if deferred is None:
                raise Undecided("native stub needs a partially selected impl: %s" % full)
            deferred.append([
                ("#[verifier::external_body]\n" + ("" if sig.startswith("pub") else "pub ") + sig2 + "\n", ("repo", m.file, line_of(src, it["sig_start"]))),
                ("    " + clauses + "\n", ("spec", fs.specfile, first - 1, full, fs.props)),
                ("{ unimplemented!() }\n", ("gen", "R8"))])
            info["stubs"].append(full)
            b.rule_counts["R8"] = b.rule_counts.get("R8", 0) + 1
            return
        attr = weave_attr(fs, full, probe=False)
        b.add(attr[0], attr[1])
        # the assumed contract's lines are clauses too (not counted as obligations of the stub -- it has none --, but a caller's
        # failed precondition is attributed to the property tag of the clause it fails, e.g. `// [C13]` on is_canon(..))
        for lineno, t in fs.spec:
            if t.strip():
                info["clauses"].append({"file": fs.specfile, "fn": full, "spec_line": lineno, "text": t.strip(), "props": clause_props(t, []), "where": "stub"})
        b.add("#[verifier::external_body]\n", ("gen", "R8"))
        vis = "pub "
        sig = src[it["sig_start"]:it["sig_end"]].decode()
        if sig.startswith("pub"):
            vis = ""
        if it.get("parent") is not None and items[it["parent"]].get("trait"):
            vis = ""
        b.add(vis + sig, ("repo", m.file, line_of(src, it["sig_start"])))
        dummy = ""
        if it.get("parent") is not None and not it.get("has_self") and re.search(r"^\s*\w+\s*=>", spec_lines_to_text(fs.spec)):
            par = items[it["parent"]]
            if par["kind"] == "impl":
                gens = ", ".join(x for x in (par.get("impl_generics", ""), it.get("fn_generics", "")) if x)
                sty = par.get("self_ty_text", "Self")
                inputs = re.sub(r"\bSelf\b", sty, it.get("inputs", ""))
                outp = re.sub(r"\bSelf\b", sty, it.get("output", ""))
                dummy = " #[verifier::external] fn %s%s(%s)%s { unimplemented!() } " % (
                    it["name"], ("<" + gens + ">") if gens else "", inputs, (" -> " + outp) if outp else "")
        for rx, rp in m.renames:
            dummy = re.sub(rx, rp, dummy)
        dummy = re.sub(r"<(\w+): AsRef<str>>", r"<\1>", dummy)
        b.gen(" {" + dummy + " unimplemented!() }\n", "R8")
        info["stubs"].append(full)
        b.rule_counts["R8"] = b.rule_counts.get("R8", 0) + 1
        return
    inserts = fn_inserts(u, m, d, it, info, used_fns, probe_fn)
    emit_range(b, d, m.file, it["start"], it["end"], inserts, (fs.renames if fs is not None else []) + m.renames)
    b.gen("\n")


def weave_attr(fs, full, probe):
    lines = list(fs.spec)
    body = []
    for lineno, t in lines:
        body.append(t)
    txt = "\n".join(body).rstrip()
    if probe:
        ls = txt.split("\n")
        di = next((k for k, l in enumerate(ls) if l.strip().startswith("decreases")), None)
        head = "\n".join(ls[:di]) if di is not None else txt
        tail = ("\n" + "\n".join(ls[di:])) if di is not None else ""
        if re.search(r"\bensures\b", head):
            head = head.rstrip().rstrip(",") + ",\n        false /*VX_PROBE*/,"
        else:
            head = head.rstrip().rstrip(",") + ("," if head.strip() and not head.strip().endswith("=>") else "") + "\n    ensures false /*VX_PROBE*/,"
        txt = head + tail
    first = lines[0][0] if lines else fs.line
    return ("\n" + "".join(a + " " for a in fs.attrs) + "#[verus_spec(" + txt + "\n)]\n", ("spec", fs.specfile, first - 1, full, fs.props))


def fn_inserts(u, m, d, it, info, used_fns, probe_fn):
    """weave inserts for one function item (contract attr, loop invariants, proof blocks)"""
    full = "%s::%s" % (m.name, it["path"])
    src = d["src"]
    fs = u.fns.get(full)
    ins = []
    if fs is None:
        # verified for safety obligations only
        ins.append((it["core_start"], -1, "\n#[verus_spec()]\n", ("gen", "verus_spec()")))
        info["functions"].append({"fn": full, "file": m.file, "line": it["line"], "line_end": it["line_end"], "contract": False, "props": list(u.default_props)})
        return ins
    used_fns.add(full)
    text, origin = weave_attr(fs, full, probe=(probe_fn == full))
    ins.append((it["core_start"], -1, text, origin))
    # Verus' verus_spec names the return value through a call `name(args)` that does not resolve
    # for receiver-less associated functions: give it a same-signature external dummy to resolve to.
    if it.get("parent") is not None and not it.get("has_self") and "body_start" in it and re.search(r"^\s*\w+\s*=>", spec_lines_to_text(fs.spec)):
        par = d["items"][it["parent"]]
        if par["kind"] == "impl":
            gens = ", ".join(x for x in (par.get("impl_generics", ""), it.get("fn_generics", "")) if x)
            sty = par.get("self_ty_text", "Self")
            inputs = re.sub(r"\bSelf\b", sty, it.get("inputs", ""))
            outp = re.sub(r"\bSelf\b", sty, it.get("output", ""))
            dummy = " #[verifier::external] fn %s%s(%s)%s { unimplemented!() } " % (
                it["name"], ("<" + gens + ">") if gens else "", inputs, (" -> " + outp) if outp else "")
            for rx, rp in m.renames:
                dummy = re.sub(rx, rp, dummy)
            dummy = re.sub(r"<(\w+): AsRef<str>>", r"<\1>", dummy)
            ins.append((it["body_start"] + 1, -1, dummy, ("gen", "verus_spec return-name workaround")))
    info["functions"].append({"fn": full, "file": m.file, "line": it["line"], "line_end": it["line_end"], "contract": True, "props": fs.props, "has_body": "body_start" in it, "n_loops": len(it.get("loops", []))})
    for lineno, t in fs.spec:
        if t.strip():
            info["clauses"].append({"file": fs.specfile, "fn": full, "spec_line": lineno, "text": t.strip(), "props": clause_props(t, fs.props), "where": "spec"})
    body = src[it["body_start"]:it["body_end"]].decode() if "body_start" in it else ""
    loops = it.get("loops", [])
    for li, (anchor, sec, occ) in enumerate(fs.loops):
        cands = [l for l in loops if norm(anchor) in l["header"]]
        if len(cands) <= occ and id(sec) in fs.optional:
            info.setdefault("skipped_hints", []).append({"fn": full, "loop": anchor, "occ": occ})
            continue
        if len(cands) <= occ:
            # the header text changed: fall back to the loop at the same position, provided the function still has
            # exactly as many loops as the sidecar annotates (so the pairing is unambiguous)
            if len(loops) == len(fs.loops):
                cands, occ = [loops[li]], 0
            else:
                raise Undecided("anchor lost (loop in %s): %r" % (full, anchor))
        l = cands[occ]
        first = sec[0][0] if sec else fs.line
        attr_txt = "#[verus_spec(" + spec_lines_to_text(sec).strip() + "\n)]\n"
        if anchor in fs.loopghosts:
            attr_txt = "proof_decl! {\n" + spec_lines_to_text(fs.loopghosts[anchor]) + "\n}\n" + attr_txt
        if "r12" in l:
            tag = "/*@L12:%d*/" % l["ord"]
            found = False
            for e in d["edits"]:
                if e["start"] >= it["start"] and e["end"] <= it["end"] and tag in e["text"]:
                    pre_t, post_t = e["text"].split(tag)
                    e["text"] = pre_t
                    # the attribute + rest as a separate insertion so spec lines keep their origin
                    ins.append((e["end"], 0, "\n" + attr_txt, ("spec", fs.specfile, first - 1, full, fs.props)))
                    ins.append((e["end"], 0, post_t, ("edit", "R12", m.file, e["line"])))
                    found = True
            if not found:
                raise Undecided("anchor lost (R12 loop in %s): %r" % (full, anchor))
        else:
            ins.append((l["start"], 0, attr_txt, ("spec", fs.specfile, first, full, fs.props)))
        for lineno, t in sec:
            if t.strip():
                info["clauses"].append({"file": fs.specfile, "fn": full, "spec_line": lineno, "text": t.strip(), "props": clause_props(t, fs.props), "where": "loop " + anchor})
    for where, anchor, occ, sec, mac in fs.proofs:
        if id(sec) in fs.optional:
            try:
                if where in ("inloop", "endloop", "afterloop"):
                    if len([l for l in loops if norm(anchor) in l["header"]]) <= occ:
                        raise Undecided("gone")
                elif where not in ("start", "end"):
                    find_anchor(body, anchor, occ, "probe")
            except Undecided:
                info.setdefault("skipped_hints", []).append({"fn": full, "hint": "%s %s" % (where, anchor), "occ": occ})
                continue
        first = sec[0][0] if sec else fs.line
        if mac is None:
            ptxt = "\n\n" + spec_lines_to_text(sec) + "\n"
        else:
            ptxt = "\n" + mac + " {\n" + spec_lines_to_text(sec) + "\n}\n"
        if where == "start":
            pos = it["body_start"] + 1
        elif where == "end":
            # before the closing brace of the function body (only for bodies that end with a statement)
            tail = body[:it["body_end"] - it["body_start"] - 1].rstrip()
            while True:  # skip trailing line comments
                nl = tail.rfind("\n")
                last = tail[nl + 1:]
                if last.strip().startswith("//"):
                    tail = tail[:nl + 1].rstrip() if nl >= 0 else ""
                else:
                    break
            if not (tail.endswith(";") or tail.endswith("}")):
                raise Undecided("anchor lost (`end` needs a body ending with a statement in %s)" % full)
            pos = it["body_end"] - 1
        elif where in ("inloop", "endloop", "afterloop"):
            # at the start of the body of the loop whose header contains the anchor (same pairing rule as %loop)
            cands = [l for l in loops if norm(anchor) in l["header"]]
            if len(cands) <= occ:
                idx = [k for k, (a2, _, o2) in enumerate(fs.loops) if a2 == anchor and o2 == occ]
                if idx and len(loops) == len(fs.loops):
                    cands, occ2 = [loops[idx[0]]], 0
                else:
                    raise Undecided("anchor lost (inloop in %s): %r" % (full, anchor))
            else:
                occ2 = occ
            pos = cands[occ2]["body_open"] + 1 if where == "inloop" else (cands[occ2]["body_close"] if where == "endloop" else cands[occ2]["body_close"] + 1)
        else:
            a, z = find_anchor(body, anchor, occ, "proof in " + full)
            if where == "afterblock":
                # the anchor ends with `{`: go to just after its matching `}`
                if not body[:z].rstrip().endswith("{"):
                    raise Undecided("afterblock anchor must end with '{' (%s)" % full)
                depth, k = 1, z
                while k < len(body) and depth > 0:
                    ch = body[k]
                    if ch == "/" and body[k:k + 2] == "//":
                        k = body.find("\n", k)
                        if k < 0:
                            break
                        continue
                    if ch == '"':
                        k += 1
                        while k < len(body) and body[k] != '"':
                            k += 2 if body[k] == "\\" else 1
                    elif ch == "{":
                        depth += 1
                    elif ch == "}":
                        depth -= 1
                    k += 1
                if depth != 0:
                    raise Undecided("anchor lost (unbalanced block after anchor in %s)" % full)
                z = k
            elif where == "afterstmt":
                # the anchor is the beginning of a statement: go to just after the `;` that ends it (nesting depth 0)
                depth, k = 0, z
                while k < len(body):
                    ch = body[k]
                    if ch == '"':
                        k += 1
                        while k < len(body) and body[k] != '"':
                            k += 2 if body[k] == "\\" else 1
                    elif ch in "([{":
                        depth += 1
                    elif ch in ")]":
                        depth -= 1      # may go negative: the anchor usually ends inside the call's parentheses
                    elif ch == "}":
                        if depth <= 0:
                            raise Undecided("anchor lost (afterstmt: no statement end in %s)" % full)
                        depth -= 1
                    elif ch == ";" and depth <= 0:
                        break
                    k += 1
                if k >= len(body):
                    raise Undecided("anchor lost (afterstmt: no statement end in %s)" % full)
                z = k + 1
            pos = it["body_start"] + (a if where == "before" else z)
        ins.append((pos, -1 if where == "before" else 0, ptxt, ("spec", fs.specfile, first - 2, full, fs.props)))
        for lineno, t in sec:
            if re.match(r"\s*assert\b", t) or (mac == "proof!" and re.match(r"\s*(if \w+ \{ )?[\w:]+::lemma_\w+\(", t)):
                # asserts, and lemma calls (whose preconditions are obligations of their own)
                info["clauses"].append({"file": fs.specfile, "fn": full, "spec_line": lineno, "text": t.strip(), "props": clause_props(t, fs.props), "where": "proof"})
            elif mac is None and "verus_spec(" in t:
                # a contract woven onto a closure (%raw): its own clause, with the function's properties unless tagged
                info["clauses"].append({"file": fs.specfile, "fn": full, "spec_line": lineno, "text": t.strip(), "props": clause_props(t, fs.props), "where": "closure"})
    # R6-generated loops: replace the placeholder comment inside edit text
    for n, sec in fs.r6.items():
        found = False
        for tag in ("/*@R6INV:%d*/" % n, "/*@R6RINV:%d*/" % n):
            for e in d["edits"]:
                if e["start"] >= it["start"] and e["end"] <= it["end"] and tag in e["text"]:
                    e["text"] = e["text"].replace(tag, "#[verus_spec(" + spec_lines_to_text(sec).strip() + ")] ")
                    found = True
        if not found:
            if n in fs.r6_optional:
                continue
            raise Undecided("anchor lost (R6 loop %d in %s)" % (n, full))
        for lineno, t in sec:
            if t.strip():
                info["clauses"].append({"file": fs.specfile, "fn": full, "spec_line": lineno, "text": t.strip(), "props": clause_props(t, fs.props), "where": "r6 %d" % n})
    return ins


def clause_props(text, default):
    m = re.search(r"//\s*\[([A-Z0-9, ]+)\]", text)
    if m:
        return [p.strip() for p in m.group(1).split(",") if p.strip()]
    return list(default)
