#!/usr/bin/env python3
"""sweep2.py: second pass over the survivors of vx/sweep.py.
 1. a survivor of unit U is re-run against every other unit that extracts the same source file (a function is usually
    under its full contract in one unit and under a thin one elsewhere) -> 'killed by <unit>'
 2. what is left is built and run through the repository's test suite in a scratch copy -> 'fails tests' (not a change
    the brief is about) or RELEVANT (compiles, suite green, every obligation verifies): read by hand.
Writes /verif/sweep/SURVIVORS.json."""
import sys, os, re, json, subprocess, tempfile, shutil, glob
from concurrent.futures import ThreadPoolExecutor
sys.path.insert(0, "/verif")
from vx import unit
units = {}
for p in sorted(glob.glob("/verif/specs/*.vx")):
    try:
        sp = unit.parse_spec(p)
    except Exception as e:
        continue
    files = set(m.file for m in sp.modules if getattr(m, "file", None))
    units[sp.name] = files
surv = []
for p in sorted(glob.glob("/verif/sweep/*.json")):
    if p.endswith("SURVIVORS.json"): continue
    d = json.load(open(p))
    for m in d["mutants"]:
        if m["status"] == "SURVIVED":
            surv.append(dict(m, unit=d["unit"]))
# de-duplicate (same file/line/new)
seen = {}; 
for m in surv:
    seen.setdefault((m["file"], m["line"], m["new"]), m)
surv = list(seen.values())
print(len(surv), "survivors", flush=True)
def run(m):
    scr = tempfile.mkdtemp(prefix="vx_s2_")
    try:
        subprocess.run(["rsync", "-a", "--exclude", ".git", "/repo/", scr + "/"], check=True)
        p = os.path.join(scr, m["file"]); L = open(p).read().split("\n")
        assert L[m["line"] - 1].strip() == m["old"], (L[m["line"] - 1], m["old"])
        ind = re.match(r"\s*", L[m["line"] - 1]).group(0)
        L[m["line"] - 1] = ind + m["new"]; open(p, "w").write("\n".join(L))
        for u, files in units.items():
            if u == m["unit"] or m["file"] not in files: continue
            r = subprocess.run([sys.executable, "/verif/vx/try.py", "/verif/specs/%s.vx" % u, os.path.join(scr, "unit.rs")], capture_output=True, text=True, env=dict(os.environ, VX_REPO=scr), timeout=900)
            if re.search(r"^FAIL ", r.stdout, re.M):
                f = next(l for l in r.stdout.split("\n") if l.startswith("FAIL"))
                return dict(m, verdict="killed by " + u, first=f[:200])
        env = dict(os.environ, CARGO_NET_OFFLINE="true")
        r = subprocess.run(["cargo", "test", "--offline", "-q"], cwd=scr, capture_output=True, text=True, env=env, timeout=1500)
        if r.returncode != 0:
            t = [l for l in (r.stdout + r.stderr).split("\n") if "FAILED" in l or "error" in l][:2]
            return dict(m, verdict="fails tests", first=" ".join(t)[:200])
        return dict(m, verdict="RELEVANT")
    except Exception as e:
        return dict(m, verdict="error", first=str(e)[:200])
    finally:
        shutil.rmtree(scr, ignore_errors=True)
out = []
with ThreadPoolExecutor(max_workers=int(sys.argv[1]) if len(sys.argv) > 1 else 5) as ex:
    for r in ex.map(run, surv):
        out.append(r)
        print("%-22s %s:%d %s | %s -> %s" % (r["verdict"], r["file"], r["line"], r["fn"], r["old"][:70], r["new"][:70]), flush=True)
json.dump(out, open("/verif/sweep/SURVIVORS.json", "w"), indent=1)
