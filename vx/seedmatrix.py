#!/usr/bin/env python3
"""seedmatrix.py [ids...]: run every seeded mutant against the check of its own property (if claimed) and print a table.
Writes /verif/seeded/RESULTS.json.  Scratch copies are under $TMPDIR and removed."""
import sys, os, json, subprocess, tempfile, shutil, re
from concurrent.futures import ThreadPoolExecutor
sys.path.insert(0, "/verif")
from vx.props import PROPS
SEED = "/verif/seeded"
EXTRA = {  # mutants that also fall under other claimed properties
    "C08-m8": ["C02", "C03"], "C14-m8": ["C13"], "C15-m7": ["C12"],
    "C19-m2": ["C01"], "C02-m2": ["C01"], "C06-m1": ["C04", "C05"], "C06-m2": ["C01"], "C05-m1": ["C01"], "C05-m2": ["C04"],
    "C03-m1": ["C08"], "C07-m1": ["C08"], "C18-m2": ["C06"], "C09-m1": ["C08", "C02"], "C09-m2": ["C02"], "C03-m2": ["C02"], "C02-m1": ["C03"], "C14-m2": ["C13"], "C02-m3": ["C03"], "C02-m4": ["C09", "C15"], "C11-m3": ["C10"], "C20-m3": [], "C07-m3": ["C08"], "C07-m4": ["C08"], "C09-m3": ["C02"], "C09-m4": ["C08"], "C03-m3": ["C02"], "C03-m4": ["C02"], "C10-m3": ["C11", "C12"], "C10-m4": ["C11"], "C05-m4": ["C01"], "C12-m4": ["C15"], "C15-m3": ["C12"], "C15-m4": ["C09", "C02"], "C01-m3": ["C19"], "C01-m4": ["C05"], "C04-m4": ["C11", "C10"], "C06-m3": ["C18"], "C06-m4": ["C04"], "C08-m4": ["C09"], "C14-m4": [], "C18-m4": ["C17"], "C19-m3": ["C17"], "C19-m4": ["C20"], "C02-m5": ["C03"], "C02-m6": ["C01"], "C07-m5": ["C08"], "C07-m6": ["C08"], "C11-m5": ["C10"], "C11-m6": ["C10"], "C13-m5": ["C14"], "C13-m6": ["C14"], "C17-m5": ["C18"], "C17-m6": ["C18"], "C01-m5": ["C05"], "C01-m6": ["C05"], "C04-m5": ["C11"], "C05-m5": ["C02"], "C09-m5": ["C08"], "C09-m6": ["C02"], "C19-m5": ["C17"], "C19-m6": ["C05"], "C10-m5": ["C11"], "C10-m6": ["C17"], "C06-m5": ["C01", "C19"], "C06-m6": ["C04"], "C08-m5": ["C02", "C03"], "C08-m6": ["C09"], "C03-m5": ["C02", "C08"], "C03-m6": ["C08", "C09"], "C18-m5": ["C17"], "C14-m5": [], "C14-m6": ["C13"], "C12-m5": ["C15"], "C12-m6": [], "C18-m7": ["C06"], "C18-m8": ["C01", "C06"], "C11-m7": [], "C11-m8": ["C10"], "C13-m7": ["C09"], "C13-m8": ["C18"], "C02-m7": ["C03"], "C02-m8": ["C03"], "C15-m5": ["C12"], "C15-m6": ["C09"], "C07-m7": ["C08"], "C07-m8": ["C08"], "C05-m7": [], "C05-m8": ["C01", "C19"], "C19-m7": ["C20"], "C19-m8": ["C03"], "C12-m7": ["C15"], "C12-m8": ["C13"], "C20-m7": [], "C20-m8": ["C19"], "C06-m7": ["C01", "C18"], "C06-m8": ["C09", "C12"], "C10-m7": ["C11", "C12"], "C10-m8": ["C11", "C04"],
}
STALE = {  # patches that still apply textually (with fuzz) but no longer make sense on the fixed tree
    "C17-m2": "applies with fuzz but the result does not compile: the D16 fix added `loader.loading.push(id)` after the lines this change removes (`let id = ..`)",
}
def run(mid):
    if mid in STALE:
        return mid, {"status": "stale: " + STALE[mid]}
    prop = mid.split("-")[0]
    props = [p for p in [prop] + EXTRA.get(mid, []) if p in PROPS]
    if not props:
        return mid, {"status": "property not claimed yet"}
    scr = tempfile.mkdtemp(prefix="vx_seed_")
    try:
        subprocess.run(["rsync", "-a", "--exclude", "target", "--exclude", ".git", "/repo/", scr + "/"], check=True)
        r = subprocess.run(["patch", "-p1", "-s", "-d", scr, "-i", os.path.join(SEED, mid, "patch.diff")], capture_output=True, text=True)
        if r.returncode != 0:
            return mid, {"status": "patch does not apply to current /repo", "detail": (r.stdout + r.stderr)[:300]}
        res = {}
        for p in props:
            r = subprocess.run([sys.executable, "/verif/check.py", p], capture_output=True, text=True, env=dict(os.environ, VX_REPO=scr, VX_EVIDENCE_DIR=scr))
            lines = [l for l in r.stdout.split("\n") if l.startswith(("VIOLATION", "UNDECIDED"))]
            res[p] = {"exit": r.returncode, "first": (lines[0][:300] if lines else "")}
        return mid, res
    finally:
        shutil.rmtree(scr, ignore_errors=True)
ids = sys.argv[1:] or sorted(os.listdir(SEED))
ids = [i for i in ids if os.path.isdir(os.path.join(SEED, i))]
out = {}
with ThreadPoolExecutor(max_workers=4) as ex:
    for mid, res in ex.map(run, ids):
        out[mid] = res
        print(mid, json.dumps(res)[:400], flush=True)
old = {}
rp = os.path.join(SEED, "RESULTS.json")
if os.path.exists(rp):
    old = json.load(open(rp))
old.update(out)
json.dump(old, open(rp, "w"), indent=1, sort_keys=True)
