import sys, os, json, tempfile
sys.path.insert(0, '/verif')
from vx import unit, verus
spec = unit.parse_spec(sys.argv[1])
out = sys.argv[2] if len(sys.argv) > 2 and sys.argv[2] != '-v' else '/tmp/vxtry/%s.rs' % spec.name
os.makedirs(os.path.dirname(out), exist_ok=True)
try:
    res = unit.build_unit(spec, out)
except unit.Undecided as e:
    print("UNDECIDED", e); sys.exit(2)
r = verus.run_verus(out, res['linemap'], res['info'], extra_args=spec.verus_args)
print("verified", r.verified, "errors", r.errors, "wall %.1fs" % r.wall_s, "smt_ms", r.smt_ms)
for c in r.compile_errors: print("COMPILE:", c)
for c in r.undecided: print("UNDECIDED:", c)
for f in r.failures:
    print("FAIL", f['key'], f['props'], f['origin'], 'unit line', f['unit_line'])
if '-v' in sys.argv:
    for f in r.failures: print(f['rendered'])
slow = sorted(r.fn_times.items(), key=lambda kv: -kv[1][0])[:5]
print("slowest:", slow)
