"""property -> which units / Kani groups decide it (DESIGN §6)"""
PROPS = {
    "C14": {
        "units": ["graph"],
        "probes": {"graph": ["graph::Graph::add_build", "graph::BuildOuts::remove_duplicates"]},
        "level": "proof",
        "assumptions": [
            "#builds and #files < 2^32 (BuildId/FileId are u32; stated as precondition of Graph::add_build)",
            "paths reach Graph::add_build as FileIds through canonicalize_path + GraphFiles::id_from_canonical (C13); the hash-map lookup itself is trusted",
            "derive(PartialEq) on FileId/BuildId is structural equality",
            "R4: message formatting dropped (the error text citing both statements is not checked, only that Err is returned iff a conflict exists)",
        ],
    },
}

NOT_APPLICABLE = {
    "C16": "OS-level effects (posix_spawn file actions, pipes, /bin/sh, waitpid, cross-thread output order) sit behind unsafe FFI and threads; no contract on n2's own code can express them (DESIGN.md §8)",
}

LEVEL_TEXT = {
    "C14": {
        "text": "Unbounded proof (Verus) on the real text of Graph::add_build and BuildOuts::remove_duplicates: add_build returns Err iff some listed output already has a producing statement; on Ok the graph invariant wf_graph holds (every output of every build names exactly that build as producer, no duplicates in any output list) and the new build's outputs are the first-occurrence de-duplication of the listed ones with the explicit count = number of distinct explicit outputs. Holds for all graphs, all output lists, all multiplicities.",
        "note": "Trusted: Verus/z3; #builds,#files < 2^32; derive(PartialEq) structural; std::mem::replace spec; Vec length <= usize::MAX; message text dropped (R4) so 'citing both statements' is not checked; spelling-equivalence is C13's job (canonicalisation) and the hash-map in GraphFiles::id_from_canonical is trusted; 'nothing is run' follows from load::read returning Err before Work::new (not verified here).",
        "design_ref": "DESIGN.md §6 C14",
    },
}
