"""property -> which units / Kani groups decide it (DESIGN §6)"""
PROPS = {
    "C14": {
        "units": ["graph"],
        "probes": {"graph": ["graph::Graph::add_build", "graph::BuildOuts::remove_duplicates"]},
        "level": "proof",
        "assumptions": [
            "#builds and #files < 2^32 (BuildId/FileId are u32; stated as precondition of Graph::add_build)",
            "paths reach Graph::add_build as FileIds through canonicalize_path + GraphFiles::id_from_canonical (C13); the hash-map lookup itself is trusted",
            "derive(PartialEq) on FileId/BuildId is structural equality",
            "R4: message formatting dropped (the error text citing both statements is not checked, only that Err is returned iff a conflict exists)",
        ],
    },
}

SCHED_ASSUME = [
    "task::Runner is the trusted boundary (threads + channel): start/wait/can_start_more/is_running carry assumed contracts over the abstract sets started/live; the counter arithmetic of their real bodies is verified in unit task (see there)",
    "Work::check_build_dirty / record_finished / create_parent_dirs are stubs in unit sched (frame contracts); their bodies are the subject of unit dirty",
    "ASSUMED in BuildStates::get_pool: `&mut String == &str` is string equality (no vstd spec), and unyielded IterMut elements stay unmodified on early return (also in pop_queued)",
    "HashSet<BuildId> in Work::ready_dependents is modelled by a wrapper whose iteration yields each element exactly once in arbitrary order",
    "#builds < 2^32 and 5*#builds < 2^31 (tasks_failed is an i32), usize is 64 bit",
    "derive(PartialEq) on BuildState/BuildId/FileId is structural equality; std::mem::replace spec; Vec length <= usize::MAX",
    "commands terminate (Runner::wait returns); failures_left != Some(0) and parallelism >= 1 are preconditions of Work::run: run::parse_args is proved (over a lexopt shim whose parser yields arbitrary options and numbers) never to produce them (-k 0 -> no limit, -j 0 -> CPU count), run::build passes them to the Work::new stub whose precondition they are; that Work::new copies the options and that a phase-1 run without failures leaves the budget untouched is the protocol argument of unit run, not one theorem",
]
TASK_ASSUME = ("unit task: the real bodies of Runner::{new,can_start_more,is_running,start,wait} and ThreadIds::{claim,release} are verified: can_start_more == (running < parallelism), start/wait change `running` by exactly one without overflow/underflow, "
    "slot indices are in range (wait never panics); TRUSTED representation axiom rs::ax_runner_repr: |live| == running and par == parallelism (which thread runs what cannot be stated over fields); the spawned closure of Runner::start is kept (thread::spawn, Instant::now, channel send/recv are stubs): "
    "it is proved to label its completion with the id/tid of its start call and to report an error outside the process as Termination::Failure; run_task is proved to pass the command's termination on unchanged, to read the depfile only after Success and to report exactly what read_depfile returned, to filter /showIncludes lines whatever the outcome; "
    "R23: run_task's call of process::run_command with its output-collecting closure (captures two mutable references, unsupported) is replaced by one opaque call that may change `output` arbitrarily -- that closure body is not verified; write_rspfile is a stub (fs); read_depfile is verified up to two text-matched wrappers")
PROC_ASSUME = ("unit proc: process_posix::run_command returns the decoding (exit status 0 -> Success, SIGINT -> Interrupted, anything else -> Failure) of the status "
    "waitpid stored for the child it spawned, over a TRUSTED libc shim (waitpid, W* helpers uninterpreted except exited/signaled exclusive) and the documented unix meaning of "
    "ExitStatus::{from_raw,success,signal,code}; R22: the spawn block (pipe2/posix_spawn, raw pointers) is replaced by one opaque call and is not verified; the read loop is not shown to terminate "
    "(it ends when the child closes the pipe); task::run_task (closure capturing a mutable reference) passes this value on unverified")
PROPS["C01"] = {
    "units": ["sched", "proc", "task"],
    "probes": {"sched": ["work::Work::run", "work::BuildStates::want_build", "work::Work::ready_dependents"], "proc": ["process_posix::run_command"], "task": ["task::run_task", "task::Runner::start"]},
    "level": "proof",
    "assumptions": SCHED_ASSUME + [PROC_ASSUME, TASK_ASSUME, "'unless the manifest was regenerated and reloaded': the started set belongs to one Runner/Work; a new Work is only built after load::read (unit run, C17)"],
}
PROPS["C04"] = {
    "units": ["sched", "task", "load"],
    "probes": {"sched": ["work::Work::run", "work::BuildStates::pop_queued", "work::BuildStates::enqueue"], "task": ["task::Runner::can_start_more", "task::Runner::start", "task::Runner::wait"], "load": ["load::Loader::parse_with_parser"]},
    "level": "proof",
    "assumptions": SCHED_ASSUME + [TASK_ASSUME, "|live| of the abstract Runner equals the real `running` counter (both change by one in start/wait); BuildStates::new (built-in unlimited \"\" pool and `console`, declared pools present, everything fresh) and Work::new (establishes Work::run's preconditions) are under contract; that the depth value parsed by parse::read_pool is the number written in the manifest is not (str::parse is trusted)"],
}
PROPS["C05"] = {
    "units": ["sched", "run", "proc", "task"],
    "probes": {"sched": ["work::Work::run", "work::Work::recheck_ready"], "run": ["run::build", "run::run_impl", "run::parse_args", "main::main"], "proc": ["process_posix::run_command"], "task": ["task::run_task", "task::Runner::start"]},
    "level": "proof",
    "assumptions": SCHED_ASSUME + [PROC_ASSUME, TASK_ASSUME, "main.rs is under contract (protocol vxm, unit run): process::exit only with run()'s non-zero code or 1 after `n2: error:` was printed, normal return only after Ok(0); run::run (3 lines: run_impl, trace::close, return) is not extracted", "unit run: build returns Ok(None) only after a Work::run that returned false, Ok(Some) only directly after one that returned true; run_impl maps None -> 1 (silently), Some -> 0 after the summary; ",
                    "liveness clause ('every wanted step not downstream of a failure is still brought up to date') is not decided"],
}
PROPS["C06"] = {
    "units": ["sched", "graph", "run"],
    "probes": {"sched": ["work::Work::run", "work::BuildStates::want_file", "work::Work::ready_dependents"], "graph": ["graph::Graph::add_build"], "run": ["run::parse_args"]},
    "level": "proof",
    "assumptions": SCHED_ASSUME + ["C06(a) PROVED under stated preconditions of Work::run: the `BUG: no work to do` panic is unreachable (panic! is a `requires false` obligation; no assume). The liveness invariant lv = (a Want step has a producer that is not Done) + (Ready steps are in the ready queue, Queued steps in a pool queue, the popped one excepted) + (wanted set closed under ordering inputs) + (the wanted part of the graph is acyclic: a topological numbering exists -- NOT assumed: want_build numbers a step above all others when it leaves Unknown, which happens only after the producers of its ordering inputs are wanted; a cycle is turned into an error by the stack check before that) is established by Work::new, kept by want_build/want_file/want_every_file/pop_ready/pop_queued/set/enqueue/ready_dependents and by graph changes of record_finished; at the panic point (no failure, nothing running, ready queue empty, no pool with capacity and a queued step, something pending) a Want step of minimal topological rank gives the contradiction",
                    "Work::run preconditions NOT discharged by a verified caller (run::build's calls are behind the protocol stubs of unit run): -j >= 1 (proved for run::parse_args' result, unit run), every step is listed among the dependents of its ordering inputs (deps_complete; Graph::add_build is proved to keep it in unit graph)",
                    "'every wanted step ends up to date' is decided as: Ok(true) only when every wanted step is Done, and the loop cannot stall; that the trusted Runner::wait eventually returns (commands terminate) is assumed",
                    "cycle *reporting* text is dropped (R4). 'A dependency cycle among requested steps is reported as an error' is decided as: Work::want_file returning Ok implies the wanted steps have a topological numbering along ordering inputs (postcondition wacyc), and every want function terminates; validation inputs are not part of the numbering (a cycle closed only by a validation edge is accepted); 'without running any step of the cycle' is run::build's `?` on want_file before Work::run (unit run)"],
}

PROPS["C18"] = {
    "units": ["sched", "run", "load"],
    "probes": {"sched": ["work::Work::want_file", "work::Work::want_every_file", "work::BuildStates::want_build"], "run": ["run::build"], "load": ["load::read"]},
    "level": "proof",
    "assumptions": SCHED_ASSUME + ["target selection (command-line names, else `default`, else every file; unknown name => error before anything runs) lives in run::build and is not under contract yet (unit run)",
        "'no step outside the closure is ever run' is decided through C01 (a command starts only from state Queued, reached only from Ready/Want, reached only inside want_build); the converse 'only reachable builds are wanted' is not stated as a clause",
        "-f / -C / builddir are process-level configuration: not decided",
        "D14 (names known only to .n2_db were accepted as targets) was a known finding of this check and is FIXED in /repo (78a696c): unit load proves State::manifest_files is the file count at the end of parsing, that it is >= 1 and bounds every `default` target; the run protocol lets want_file take only ids below it, and a lookup of a log-only file counts as unknown"],
}
PROPS["C19"] = {
    "units": ["sched", "dirty", "run", "proc"],
    "probes": {"sched": ["work::BuildStates::set", "work::Work::run"], "dirty": ["work::Work::record_finished"], "run": ["run::run_impl"], "proc": ["process_posix::run_command"]},
    "level": "proof",
    "assumptions": SCHED_ASSUME + [PROC_ASSUME, "unit run: run_impl prints `no work to do` exactly for Ok(Some(0)), `ran n tasks` with build()'s n otherwise, and build()'s n is the sum of the tasks_run increments of all Work::run calls (protocol stubs); Work::run's loop invariant `tasks_run == tasks_run_at_entry + (number of wait() results with Termination::Success)` (ghost counter on the trusted Runner model) pins tasks_run to the successful commands; adopt-mode steps are recorded without being counted",
        "the progress implementations behind &dyn Progress only read the counts they are handed"],
}
SCAN_ASSUME = [
    "Scanner::new is a trusted stub (byte-string literal / slice::ends_with have no Verus model): callers must pass a NUL-terminated buffer (scanner::read_file_with_nul and Parser::new's callers do; not verified)",
    "str::from_utf8_unchecked, str::strip_suffix(':'), str::parse::<usize> are trusted (R9 wrappers); EvalString::{new,evaluate}, Vars::{insert,get} are stubs in this unit (evaluation is C11's subject)",
    "R15: fn-pointer parameter of Parser::read_scoped_vars rewritten to impl Fn; R14: `break value` rewritten to an assigned variable; R16/R17 as documented",
    "the crlf cargo feature is off (default build); usize is 64 bit",
]
C12_LOAD = ("unit load: Loader::parse_with_parser never reads a file that is already being read (duplicate-free stack `loading`, precondition re-established at the recursive call by the include-cycle check of fix 531f21f, D16); "
    "that the recursion ends is then ASSUMED from the finiteness of the files on disk (no decreases clause: every level reads a file that is not on the stack)")
PROPS["C12"] = {
    "units": ["scan", "load", "canon", "perr", "run"],
    "probes": {"scan": ["parse::Parser::read", "parse::Parser::read_eval", "depfile::parse", "scanner::Scanner::read"], "load": ["load::Loader::path"], "canon": ["canon::canonicalize_path"], "perr": ["scanner::Scanner::format_parse_error"], "run": ["main::main"]},
    "level": "proof",
    "assumptions": SCAN_ASSUME + [C12_LOAD, "canonicalize_path is proved total (unit canon, no precondition) since the fixes for D2 (empty path, ebc0007) and D3 (more than 60 components, 0531b09), so none of its callers (Loader::path, Work::lookup for command-line names, record_finished for depfile names) has anything to discharge; StackStack::{push,pop} are verified (the array index is in bounds, LIFO order across the array/heap-spill boundary) over a TRUSTED MaybeUninit model (write stores what assume_init reads back); StackStack::new is a stub",
        "unit perr: Scanner::format_parse_error never panics and terminates for every buffer < 2^62 bytes and every error offset <= buffer length (that parse errors carry such an offset is the scanner invariant ofs <= len, not re-proved at the closure in load::parse_with_parser); slice::split is a trusted wrapper (lengths add up); the byte model of str is trusted (strb.pre.rs); from_utf8_unchecked on a manifest that is not UTF-8 is UB that the model hides (listed)",
        "the `n2: error:` plumbing: main.rs is under contract (unit run); that every Err of the loader reaches it is `?` all the way (run::build under contract, load::read's trace::scope closure by R5)",
        "allocation failure, stack overflow on recursive includes and file I/O are outside the contract language"],
}
PROPS["C15"] = {
    "units": ["scan", "task"],
    "probes": {"scan": ["depfile::read_path", "depfile::parse", "smallmap::SmallMap::push"], "task": ["task::read_depfile"]},
    "level": "proof",
    "assumptions": SCAN_ASSUME + ["unit task: task::read_depfile's control flow is verified over a trusted view of the file (missing / content) and of depfile::parse (parsed_of, None = parse error): a missing depfile gives the empty list, any other read error and any parse error fail the step, otherwise the result is the flattening of the parsed entries; the flattening pipeline itself (iterator adapters) and the map_err closure naming the depfile are R9 wrappers matched on their exact text (a change to them is exit 2, not a pass)",
        "the grammar is specified at token level (what delimits a token); equivalence with GNU make's full grammar is not claimed"],
}
PROPS["C10"] = {
    "units": ["scan", "load"],
    "probes": {"scan": ["parse::Parser::read_build", "parse::Parser::read"], "load": ["load::Loader::add_build"]},
    "level": "proof",
    "assumptions": SCAN_ASSUME + ["only the structural part is decided: the four input-section counts partition the input list and explicit_outs <= #outs (every subtraction in read_build is a discharged underflow obligation); which token lands in which section and escape rendering are NOT under contract; unit load: add_build maps the parsed counts one-to-one onto BuildIns/BuildOuts, the k-th input/output id names canon(eval(k-th parsed path)) in order, and cmdline/desc/depfile/pool/hide_success are the attributes `command`/`description`/`depfile`/`pool`/`hide_success` (in-body assertions before Graph::add_build; rspfile, deps and hide_progress are not asserted)",
        "graph::Build's slice accessors (explicit/dirtying/ordering/validation) are proved in unit graph/sched (tagged C10)",
        "NOT decided (found by the mutation sweep, DESIGN 10.9): the mapping `deps = msvc` -> parse_showincludes (Verus gives string-literal match patterns no link to the string's content)"],
}
DB_ASSUME = [
    "io model (trusted): Write::write_all appends all bytes or, on error/crash, a prefix; Read::read_exact fails only with UnexpectedEof and exactly when fewer bytes remain (no other I/O errors while loading); BufReader::stream_position reports the bytes consumed",
    "str::len/as_bytes/from_utf8_unchecked are related through one uninterpreted utf-8 function; to_le_bytes/from_le_bytes are the little-endian codecs (R9 wrappers)",
    "GraphFiles::id_from_canonical (hash map) is a trusted stub; HashMap<FileId,Id> obeys the vstd key model",
    "D8 (known limits, preconditions of Writer::write_build that callers cannot discharge): #outputs < 32768, #discovered deps <= 65535, names < 32768 bytes, < 2^24 distinct files ever logged",
]
PROPS["C07"] = {
    "units": ["db"],
    "probes": {"db": ["db::Reader::read_file", "db::Reader::read_record", "db::RecordWriter::finish", "db::open"]},
    "level": "proof",
    "assumptions": DB_ASSUME + ["db::open and Reader::read are under contract over a trusted file model (io.pre.rs: disk(path) = bytes on disk at entry, fcontent(file), append-mode writes go to the end, metadata().len()/set_len/File::create/BufReader::new wrappers): for every disk content that is a byte-prefix of a log n2 can write, the Writer returned by open appends to ds::kept(content) -- header + complete records, or a fresh header if the header itself was torn.  That kept(content) is again a loadable log ending exactly at a record boundary is proved (ds::lemma_take_valid / lemma_kept_complete: cutting a well-formed stream at its valid length leaves complete records only) and is part of db::open's postcondition (log_complete)",
                    "Reader methods carry the frame `the &mut Graph / &mut Hashes fields are not re-seated` (mut_ref_future), needed because Verus does not resolve &mut fields of a dropped struct by itself",
                    "what the kernel persists of one write is modelled as 'a prefix of the buffer' (write_all's Err/crash clause); fsync / ordering across files not modelled"],
}
PROPS["C08"] = {
    "units": ["db"],
    "probes": {"db": ["db::Reader::read_build", "db::Writer::write_build", "db::Writer::ensure_id"]},
    "level": "proof",
    "assumptions": DB_ASSUME + ["'hash is over names, mtimes and text only' is part of unit dirty (C02/C03)", "round trip per record: write_build's bytes are enc_build(ids_of(outs), ids_of(deps), hash), read_build decodes id_at / dec_u16 / dec_u64 of the bytes, and ds::lemma_build_roundtrip proves (bit-vector + sequence lemmas) that these decoders applied to enc_build(..) followed by anything give back exactly the encoded output ids, dependency ids and hash and leave the rest; the whole-log statement (a sequence of such records) is wf_stream + read_file"],
}

DIRTY_ASSUME = [
    "graph::stat is verified over a trusted stat model (a path exists or not; if it does it has one modification time; std::fs::metadata ASSUMED to fail only with NotFound): the stamp IS the modification time, a missing file is MTime::Missing, never an error; `a content change comes with an mtime change` and `nothing else writes the tree` are the property's own assumptions",
    "the hasher is uninterpreted: DefaultHasher is modelled as the sequence of values fed to it (hfed) and finish() as an uninterpreted function hfinish of that sequence; so `equal hash <=> equal manifest` is exactly the no-collision assumption (2^-64), which no contract can remove",
    "R9 wrappers: Hash::hash / Hasher::write_u8 / finish / Option::as_deref; R10: derive(Default) for TerseHash replaced by the explicit impl; R18: `for .. in a.iter().chain(b)` split into two consecutive loops with the same body (Verus has no model of iter::Chain)",
    "GraphFiles::id_from_canonical (hash map) and canonicalize_path (uninterpreted function canon) are trusted stubs here; db::Writer::write_build is a stub here whose body is verified in unit db (its D8 width preconditions are not repeated)",
    "explain_hash_build (the -d explain diagnostic) is a stub: it only prints",
    "whole-history composition (this invocation's record is what the next invocation's check_build_dirty reads) goes through unit db (C08: the record decodes to the same deps and hash) and is argued in DESIGN.md, not machine-checked end to end; its key step IS a proved lemma: hs::lemma_manifest_inj / lemma_equal_signature -- the fed sequence is unambiguous, so (no collisions) equal signatures imply the same names and mtimes of dirtying inputs, discovered deps and outputs, the same command line and the same response file",
]
PROPS["C02"] = {
    "units": ["dirty"],
    "probes": {"dirty": ["work::Work::check_build_dirty", "work::Work::record_finished", "hash::build_manifest", "work::Work::check_build_files_missing"]},
    "level": "proof",
    "assumptions": DIRTY_ASSUME + ["'nor a step downstream of one whose outputs it changed' is decided through the scheduler (unit sched: a dependent is dirty-checked only after its producers are Done, C01) plus the fact that the outputs' mtimes are in the dependents' manifests; the composition is not a single machine-checked theorem",
        "phony steps are always 'clean' (Ok(false)) by the code's rule; the property's stated assumption excludes phony aliases as dirtying inputs (F8)"],
}
PROPS["C03"] = {
    "units": ["dirty", "run"],
    "probes": {"dirty": ["work::Work::check_build_dirty", "hash::build_manifest", "hash::hash_build"], "run": ["run::run_impl"]},
    "level": "proof",
    "assumptions": DIRTY_ASSUME + ["`no work to do` / summary line (run.rs) and `-t restat` adopt mode wiring (Work::run's adopt branch records instead of running: verified only as far as record_finished's contract) are not under contract in this unit",
        "'an upstream re-run that leaves its outputs' timestamps unchanged causes no re-runs' follows from the manifest being a function of (names, mtimes, cmdline, rspfile) only -- proved -- plus the trusted stat"],
}
PROPS["C09"] = {
    "units": ["dirty", "task", "sched"],
    "probes": {"dirty": ["work::Work::record_finished", "work::Work::check_build_files_missing", "hash::build_manifest"], "task": ["task::extract_showincludes", "task::run_task"], "sched": ["work::Work::run"]},
    "level": "proof",
    "assumptions": DIRTY_ASSUME + ["NOT decided (mutation sweep, DESIGN 10.9): `deps = msvc` -> parse_showincludes in load::Loader::add_build (string-literal patterns), and the trailing `\\r` cut from a /showIncludes path (extract_showincludes is specified for which lines are notes and which output is shown, not for the exact bytes of each name)",
        "unit sched (Work::run): record_finished is only ever called with a report returned by Runner::wait (label rs::from_run, attached by the trusted wait stub) or, in `-t restat` adopt mode, with a report that repeats in order the names of the dependencies the step discovered in its last real run (ss::keeps_disc: D12, fixed; the precondition of the record_finished stub, tagged C09)",
        "'discovered dependencies never change build order' is decided in unit sched (readiness is computed from ordering_ins only; tagged C01); persistence across invocations is unit db (C08: write_build/read_build carry the discovered list)",
        "unit task: extract_showincludes is proved to return as shown output exactly the lines that are not `Note: including file: ` lines, in order (si::shown over the trusted slice::split / strip_prefix / ends_with / to_vec wrappers), one reported name per note line, and never to panic on its [start..end] slice; " + TASK_ASSUME + "; read_depfile (iterator adapters) is NOT under contract: that the list it returns is what the depfile says is decided only up to depfile::parse (unit scan, C15)",
        "two spellings of one file map to one FileId through canonicalize_path (C13) + the trusted name->id map; here canon is an uninterpreted function"],
}

PROPS["C20"] = {
    "units": ["render", "task", "sched"],
    "probes": {"render": ["progress_fancy::task_message", "progress_fancy::truncate", "progress_fancy::progress_bar", "progress::build_message", "terminal::unix::get_cols", "progress_fancy::FancyState::print_progress", "progress_dumb::DumbConsoleProgress::new"], "task": ["task::find_last_line"], "sched": ["work::Work::run"]},
    "level": "proof",
    "assumptions": [
        "TRUSTED byte model of str/String (R9 wrappers, render.pre.rs): len, is_char_boundary (defined on the utf-8 bytes exactly as core does), &s[..n] and String::truncate panic unless n is a boundary, push/push_str/repeat append the encodings, an ASCII char encodes to one byte; utf-8 encoding itself is uninterpreted",
        "format!(\" ({}s)\", seconds) is an opaque String of arbitrary length (R4): the width bound therefore holds for every elapsed time, not only up to 10^6 s",
        "progress_bar's precondition total * (bar_size + 1) <= usize::MAX holds at its only call site (bar_size 40, counts bounded by the number of builds < 2^32 by C19's count_inv) and is discharged there: FancyState::print_progress is under contract (never panics, terminates, calls task_message/truncate/progress_bar within their preconditions, at most 8 task lines) given counts < 2^32 each (C19) -- over trusted wrappers for the clock, VecDeque::iter().take(), stdout (ASSUMED: write_all succeeds; the real code unwraps it) and a byte-string literal; R4 drops the text write! produces, so the width of the *assembled* lines is decided only through the helpers' postconditions; the mutex, the debounce thread and the other FancyState methods (task_output's find().unwrap()) are not under contract (terminal::unix::get_cols IS: over a libc shim it returns Some(c) only for c >= 10)",
        "progress_dumb.rs (the plain console display) is under contract: task_started/task_finished never panic for a step that has a command -- a trait-level precondition of Progress::{task_started,task_finished} that Work::run is proved to meet at its call sites (unit sched: only non-phony steps are started); Cell and stdout are trusted wrappers (stdout writes ASSUMED to succeed)",
        "unit task: task::find_last_line (called in the task thread for every chunk of output) is proved never to panic and to return a sub-slice of the buffer without line breaks, for every byte string (R6: rposition as an explicit backwards scan)",
        "R19: the `for (count, ch) in [..3 tuples..]` loop of progress_bar is unrolled; the other FancyConsoleProgress methods (mutex, task_output's find().unwrap()) are not covered",
    ],
}

RUN_ASSUME = [
    "ghost protocol (run.pre.rs): load::read, Work::new, Work::{lookup,want_file,want_every_file,run} and the two result constructors of run::build are renamed (R9) to trusted stubs carrying a ghost protocol state; the protocol IS the specification (written from the statements of C17/C18/C05/C19) and the bodies of the real callees are elided here -- their own contracts are units sched/dirty/db",
    "assumed in the stubs: Work::new starts with tasks_run == 0; Work::run only increases tasks_run, by at most 2^32-1; a lookup is a function of the name within one graph generation; the manifest keeps its FileId across generations because load::read interns it first -- proved in unit load: load::read ensures files[0].name == canon(build_filename) (Loader::new gives an empty graph, the first id_from_canonical call returns FileId(0), parse_with_parser and db::open keep existing names)",
    "R5: trace::scope(name, || f()) is replaced by f(); progress objects and terminal::use_fancy are stubs; parse_args is under contract over a lexopt shim (R7) with trusted wrappers for argv[0], chdir and OsString conversions",
    "main.rs is under contract through the protocol vxm (run() and process::exit are stubs); run::run itself (3 lines) is not extracted",
]
PROPS["C17"] = {
    "units": ["run", "load", "sched"],
    "probes": {"run": ["run::build"], "load": ["load::read", "load::Loader::parse_with_parser"], "sched": ["work::Work::want_every_file"]},
    "level": "proof",
    "assumptions": RUN_ASSUME + ["unit sched: Work::want_every_file never requests the file it is told to leave out (the manifest's own target in the 'every output' case; assertion before its want_file call)", "'its generator does not run when the manifest is up to date' and 'results settled during that check are reused consistently' are decided by the dirty check (C03) and by want_file tolerating Done steps (unit sched: mono) -- here only: no reload and no second Work when phase 1 ran nothing"],
}

PROPS["C11"] = {
    "units": ["eval", "load", "scan"],
    "probes": {"eval": ["eval::EvalString::evaluate_inner", "eval::EvalString::evaluate"], "load": ["load::Loader::add_build"], "scan": ["parse::Parser::read"]},
    "level": "proof",
    "assumptions": [
        "DECIDED PART ONLY: the expansion function.  EvalString::evaluate(envs) == ev::eval(parts, envs), the spec function written from the statement (first env that binds the name wins -- even if the value is empty --, the value's own references continue in the FOLLOWING envs only, an unbound name expands to the empty string), for every part list and every env list (envs are arbitrary `dyn Env`s characterised by the uninterpreted `binds`); Vars::get_var is proved against its definition of binds",
        "unit load: Loader::add_build's `lookup` closure is proved (closure postcondition) to return livax::attr -- an attribute bound on the build block is expanded against [file scope] only, otherwise the rule's binding against [$in/$out..., build block, file scope] -- and the in/out path lists are evaluated against [build block, file scope]; BuildImplicitVars::get_var/file_list are proved against implicit_binds/join ($in, $out, $in_newline, $out_newline over the explicit ins/outs); the two SmallMap environments inherit the trait contract (first entry whose key equals the name, via the TRUSTED SmallMap::get / as_cow stubs and per-type `binds` definitions and dynamic-dispatch axioms)",
        "unit scan: in Parser::read a file-level binding stores exactly the expansion of its value against [file scope as of that statement] (in-body assertion after Vars::insert; Vars' hash map is a trusted stub)",
        "unit load / scan: a child scope starts from every binding of the parent (Parser::inherit's body proved in unit scan, asserted at the call), a subninja's bindings never reach the parent, and what an included file bound is bound after the include statement (assertion at the end of the statement loop's body; D9, found by this assertion, is FIXED in /repo 3426d1d).  NOT decided: `deps` attribute matching (string-literal patterns inside Some(..) have no Verus meaning)",
        "R17: the external bound `T: AsRef<str>` is replaced by the local trait VxAsStr (as_ref -> vx_str) implemented for &str, String, Cow<str>; Cow's view is uninterpreted with one axiom for Cow::Borrowed; String::push_str / reserve carry trusted char-level specs; calc_evaluated_length (capacity hint) is a stub; the hash map behind Vars is a trusted stub",
        "Box::leak of an included file's text is a trusted wrapper (same bytes)",
    ],
}

PROPS["C13"] = {
    "units": ["canon", "load", "dirty"],
    "probes": {"canon": ["canon::canonicalize_path"], "load": ["load::Loader::path"], "dirty": ["work::Work::lookup", "work::Work::record_finished"]},
    "level": "proof",
    "assumptions": [
        "PROVED for all inputs (unit canon): the real in-place two-cursor text of canonicalize_path computes exactly the byte-level spec function cn::canon (one case per component kind, written from the statement), never writes or reads out of bounds (every assert_unchecked is a discharged assert, R3), and 1 <= len(result) (<= len(input) unless the input is empty, which gives \".\"); NO preconditions: every byte string, any number of components",
        "PROVED for all inputs (spec-level lemmas over cn::canon, verified in unit canon): lemma_canon_canonical -- every output is in canonical form (cn::is_canonical: no empty or `.` component, `..` only leading, root kept; by induction over the run with the invariant that the output and every point the component stack can cut it back to are `good` prefixes); lemma_canon_fix -- every canonical string is a fixpoint; hence lemma_canon_idempotent: canon(canon(s)) == canon(s)",
        "PROVED for all inputs: cn::lemma_canon_location -- canon(s) denotes the same lexical location as s (cn::location: rooted?, number of leading `..` above the start, list of names descended; proved by relating the run's output and component stack to the location accumulators, with a concatenation lemma for scanning at component boundaries).  The exhaustive `by (compute)` check of the same four statements over all strings of length <= 5 (quick) / <= 7 (thorough) over {a . / \\\\} is kept as a redundant cross-check of the lemmas' statements (it evaluates the spec functions on concrete strings)",


        "call sites: GraphFiles::{id_from_canonical, lookup} (trusted hash-map stubs) require a canonical name; discharged at Loader::path (manifest paths), Work::lookup (command-line names) and Work::record_finished (reported dependencies) using the axiom canon(canon(s)) == canon(s) on the uninterpreted char-level canon (its byte-level counterpart is cn::lemma_canon_idempotent; the char<->utf-8 link is the trusted string model); db::Reader::read_path (names read back from the log) is not checked",
        "TRUSTED: StackStack (MaybeUninit array, unsafe) modelled as a sequence (R8); String::as_mut_vec / Vec::set_len specs (unsafe code: the bytes left in the vector are the string afterwards -- that they stay valid UTF-8 is the code comment's argument, not checked); Vec<u8> length <= isize::MAX",
        "UTF-8 names: the byte-level spec treats every non-separator, non-dot byte alike, so multi-byte characters are covered by the unbounded refinement proof; the bounded adequacy check uses the 4-letter alphabet only",
    ],
}

NOT_APPLICABLE = {
    "C16": "OS-level effects (posix_spawn file actions, pipes, /bin/sh, waitpid, cross-thread output order) sit behind unsafe FFI and threads; no contract on n2's own code can express them (DESIGN.md §8). Two of its clauses are decided elsewhere and reported there: 'exit status 0 is success, any other status or a signal is a failure, SIGINT an interruption' (unit proc, under C05/C01/C19), and 'depfile read after success' (unit task, under C09)",
}

LEVEL_TEXT = {
    "C13": {
        "text": "Unbounded proof (Verus) on the real text of canon.rs canonicalize_path: for EVERY byte string (since the fixes for D2/D3 there is no precondition: the empty string gives \".\", component starts beyond 60 spill to the heap) the in-place rewrite leaves exactly cn::canon(input) -- a recursive spec function with one case per component kind (empty and `.` removed, `..` removes the preceding kept component or is kept when there is none, root kept, everything else copied) -- with all indices in bounds, dst <= src, and 1 <= output length <= input length (loop invariant: run(input, src, data[..dst], stack) is constant).  Call sites Loader::path, Work::lookup and Work::record_finished hand only canonicalised names to the name->id map (precondition of the trusted map stubs).  Adequacy of the spec function is PROVED for all inputs by lemmas over it (canonical form of every output, canonical implies fixpoint, hence idempotent; same lexical location); a `by (compute)` evaluation over all strings up to length 5/7 over {a . / \\} is kept as a redundant cross-check.",
        "note": "proof (refinement, safety, length, idempotence, canonical form, location equivalence, call sites); the bounded compute check is redundant.  Trusted: MaybeUninit slot model (StackStack::push/pop themselves are verified), as_mut_vec/set_len, char-level idempotence axiom at call sites.",
        "design_ref": "DESIGN.md §6 C13",
    },
    "C11": {
        "text": "Unbounded proof (Verus) on the real text of eval.rs EvalString::{evaluate_inner, evaluate} and the Env impl of Vars: the expanded string equals the spec function ev::eval taken from the statement -- literals are copied, a reference is replaced by the expansion of the value found in the first env binding the name, that value being expanded against the envs AFTER that one only, and by nothing if no env binds it -- for all part lists and all lists of arbitrary environments; the mutual recursion terminates (decreases on the env list).",
        "note": "Expansion function (unit eval) + add_build's scoping order, path env lists and $in/$out (unit load).  D9 (include did not extend the including scope) was found by this contract and is fixed in /repo (3426d1d).  Eager top-level expansion and 'every top-level definition (re)binds its name' are an in-body assertion and a loop invariant over a ghost list of definitions in Parser::read; Parser::inherit (child scopes start from every binding of the parent) is proved (unit scan).",
        "design_ref": "DESIGN.md §6 C11",
    },
    "C17": {
        "text": "Unbounded proof (Verus) on the real text of run::build against a ghost protocol threaded through its calls (typestate preconditions on trusted stubs of load::read / Work::new / lookup / want_file / want_every_file / run): the manifest name is looked up first and, if the graph knows it, wanted and run before any other want; a second load::read happens only directly after that run returned true having executed commands, reads the same file, and is followed by a fresh Work; after any command ran, the old Work is never looked up, wanted or run again (targets, graph and dirtiness come from the new text only); ids used in want_file were resolved in the current generation (the manifest's own id excepted); after a run that returned false nothing is loaded, wanted or run and the result is Ok(None). Every path through build for every outcome of every call.",
        "note": "The protocol stubs are the trusted specification; unit load proves load::read interns the manifest first (FileId 0 in every generation).  main.rs and the file-reading helpers (read_file_by_id: that the text parsed is the file's current content) are not under contract.",
        "design_ref": "DESIGN.md §6 C17",
    },
    "C20": {
        "text": "Unbounded proof (Verus) on the real text of progress_fancy.rs task_message, truncate and progress_bar, over a trusted byte-level model of str/String: for every message, elapsed time and width >= 10, task_message terminates without panicking (every truncate/slice is at a character boundary, no subtraction underflows) and returns at most max_cols bytes, and a short message without time note is returned unchanged; truncate returns the longest prefix of at most max bytes ending on a character boundary (loop terminates because offset 0 is a boundary); progress_bar returns exactly bar_size bytes for every count vector whose total * (bar_size+1) fits in usize (nonlinear lemma: sum <= total => sum*b/total <= b, == b when sum == total).",
        "note": "Genuine defect D5 (non-boundary truncate panic poisoning the progress mutex; underflow) found by the truncate precondition and fixed in /repo (dc1a548). The str/String wrappers are trusted; FancyState::print_progress and task::find_last_line are under contract (never panic); the mutex, the debounce thread and the other FancyState methods are not.",
        "design_ref": "DESIGN.md §6 C20",
    },
    "C02": {
        "text": "Unbounded proof (Verus) on the real text of hash.rs (build_manifest, hash_build, TerseHash) and work.rs (check_build_dirty, check_build_files_missing, ensure_input_files, stat_all_outputs, record_finished): (1) the signature is hfinish of exactly [dirtying ins (name,mtime)*, sep, discovered ins (name,mtime)*, sep, cmdline, sep, rspfile?, outs (name,mtime)*, sep] -- a spec function taken from the property's list; hashing a missing file is an unreachable panic (precondition discharged at every call); (2) check_build_dirty returns Ok(false) (skip) only for a phony step or when every covered file is present AND a record exists AND the recorded signature equals the signature of the present state; (3) record_finished re-stats every dirtying input, discovered dep and output after the command and writes a record only if none is missing, with the signature of that re-stat'ed state and the new discovered list. For all graphs, file states and reports.  (4) spec-level lemma: the signature's pre-image is unambiguous (equal fed sequences <=> equal names/mtimes/cmdline/rspfile), so under the no-collision assumption a skipped step has none of these changed since its record.",
        "note": "Whole-history equivalence with a clean build is a composition of (1)-(3) with C08 (log round trip) and C01 (ordering) argued in DESIGN.md; hash collisions and the mtime assumption are outside. Trusted: stat, hasher model, id map.",
        "design_ref": "DESIGN.md §6 C02",
    },
    "C03": {
        "text": "Unbounded proof (Verus): check_build_dirty returns Ok(true) (run) only if the step is not phony and (a covered file -- dirtying input, discovered dep or output -- is missing, or there is no record, or the recorded signature differs from the signature of the present state); the signature is a function of names+mtimes of dirtying/discovered/outs, the command line and the rspfile only (order-only and validation inputs provably do not occur in hs::manifest); check_build_dirty changes nothing but the stat cache.",
        "note": "Summary line, adopt mode wiring and the two-phase run are in run.rs (not in this unit). Trusted: as C02.",
        "design_ref": "DESIGN.md §6 C03",
    },
    "C09": {
        "text": "Unbounded proof (Verus) on the real text of Work::record_finished: the step's discovered list after a successful command is disc_list(ids, dirtying_ins) -- a spec function of the reported names (canonicalised, mapped to file ids in report order, first occurrence kept, declared dirtying inputs dropped) in which the previous list does not occur (replaced wholesale); every other build and every existing file is unchanged (disc_replaced), so build order (ordering_ins) cannot change; discovered deps are part of the signature (build_manifest) and of the covered set of check_build_files_missing, where a missing discovered dep yields Ok(Some(f)) => dirty, and Err is proved to arise only for declared non-generated inputs or generated files without ordering.",
        "note": "extract_showincludes and run_task (depfile only after Success, report = what read_depfile returned, /showIncludes filtered whatever the outcome) proved in unit task; read_depfile's control flow is verified too (its flattening pipeline is a text-matched trusted wrapper). Genuine defect D12 (adopt mode dropped discovered deps) found while writing this contract and fixed in /repo (3670725).",
        "design_ref": "DESIGN.md §6 C09",
    },
    "C12": {
        "text": "Unbounded proof (Verus) on the real text of scanner.rs (Scanner::{get,peek,next,back,read,skip,skip_spaces,expect}), all of parse.rs's Parser (read, read_vardef, read_scoped_vars, read_rule, read_pool, read_unevaluated_paths_to, read_build, read_default, skip_comment, read_ident, read_eval, read_simple_varname, read_escape, skip_spaces) and depfile.rs (skip_spaces, read_path, parse): every `get_unchecked` (rewritten to a checked index, R3) is in bounds at every call site for every byte string, the scanner's three panics are unreachable, every slice(start,end) has start <= end <= len, and every loop carries a decreases measure (buffer length minus offset) -- so for all inputs the manifest/depfile readers terminate with Ok or a ParseError and never read outside the buffer.",
        "note": "Found D1 (read past the NUL in read_vardef), D4 (format_parse_error sliced inside a character) and D16 (include cycle overflowed the stack) -- all fixed in /repo. canonicalize_path's two panics (D2 empty path, D3 more than 60 components; reachable from manifests, the command line and depfiles) were fixed at the root in /repo (ebc0007, 0531b09). main.rs turns every Err of run() into `n2: error:` and status 1 (unit run); that load errors reach run() as Err is `?` in build (unit run) and read (unit load). Trusted: Scanner::new stub, utf-8/str wrappers, slice::split wrapper.",
        "design_ref": "DESIGN.md §6 C12",
    },
    "C15": {
        "text": "Unbounded proof (Verus) on the real depfile.rs: read_path returns exactly the bytes from the first non-skipped offset up to (excluding) the first delimiter -- NUL, space, newline, or a backslash followed by a newline -- so colons and other backslashes stay inside a token; parse terminates on every input, and (loop invariant) the flattened result equals the concatenation, in order, of the prerequisites read for every entry, repeated targets included (entries are appended with SmallMap::push since the fix for D11).",
        "note": "D11 (a repeated target lost its earlier prerequisites) was found by this contract and is fixed in /repo (6d385c8). task::read_depfile's control flow is under contract (unit task); its flattening pipeline is a text-matched trusted wrapper.",
        "design_ref": "DESIGN.md §6 C15",
    },
    "C10": {
        "text": "Unbounded proof (Verus), structural part only: Parser::read_build's result satisfies explicit_ins + implicit_ins + order_only_ins + validation_ins == ins.len() and explicit_outs <= outs.len() for every input text (the three subtractions cannot underflow), and the parser consumes input monotonically; Build's accessor slices are the consecutive ranges explicit | implicit | order-only | validation (units graph/sched).",
        "note": "Roles at separator level are decided (read_build: each path list is read right behind the separator that declares its role -- `|`, `||`, `|@` -- and each count is the number of paths read in that list); what follows a `$` is decided case by case (read_escape: continuation, `$ `/`$$`/`$:` literals, `${name}` up to the first `}`, `$name` = longest [a-zA-Z0-9_-] run, hence the same reference for both spellings); read_eval's parts account for the text it read segment by segment, in order, nothing skipped or read twice (sc::covers: a maximal `$`-free run becomes one literal with exactly those bytes, a `$` starts one of read_escape's cases); spacing independence (a relation between two different texts) is not decided; Loader::add_build's mapping of the parsed counts, path order and attributes onto graph::Build is (unit load).",
        "design_ref": "DESIGN.md §6 C10",
    },
    "C18": {
        "text": "Unbounded proof (Verus): Work::want_file(target) ensures closed_u && closed_v: every wanted build has the producer of each of its explicit, implicit and order-only inputs wanted (an invariant of every moment) and of each validation input wanted (re-established on return, through the re-entrant validation recursion); the target's own producer is wanted; builds already wanted are untouched (mono).",
        "note": "Target selection (unit run, ghost protocol on run::build): Ok(Some(n)) is returned only if every command-line name was resolved in the latest generation and wanted (or is the manifest, already brought up to date), else every default target was wanted, else want_every_file was called; a name unknown to the (reloaded) manifest and not in adopt mode forbids any later run. -f/-C/builddir are not decided. Trusted: as C01 + the protocol stubs.",
        "design_ref": "DESIGN.md §6 C18",
    },
    "C19": {
        "text": "Unbounded proof (Verus): count_inv -- for each of the six displayed states the counter equals the number of non-phony builds currently in that state, and total_pending equals the number of builds in Want..Running -- is established by BuildStates::set's exact effect contract (incl. the isize cast in StateCounts::add proved not to wrap) and preserved by every transition of want_*/ready_dependents/run; hence at every progress.update(&counts) call the counts are exact, each wanted non-phony step is counted once, Running count == number of live commands (runner_inv + cmd_inv), and Done/Failed counts never decrease (no transition leaves Done/Failed).",
        "note": "Summary line and tasks_run accounting are under contract (units sched, run); what counts as a successful command is the decoding proved in unit proc. Trusted: as C01; the Progress implementations only read the counts.",
        "design_ref": "DESIGN.md §6 C19",
    },
    "C07": {
        "text": "Unbounded proof (Verus) on the real (fixed) db.rs: for every byte stream that is a complete-records-plus-torn-tail stream (wf_stream: spec-level parser of the record grammar, ids defined before use), Reader::read_file returns Ok -- never an error, never a panic (all index obligations discharged) -- with exactly the complete records applied (read_record: a torn record is an EOF error that leaves ids, graph and hashes untouched) and returns the offset of the end of the last complete record (valid_len); db::open (also proved, over a trusted file model) truncates the file to exactly that length -- or rewrites the header when even that was torn -- before the Writer appends; files shorter than the header load as empty. Each record reaches the file in one write_all (RecordWriter::finish).",
        "note": "Two genuine defects found with this contract (torn tail => permanent load failure; 1-byte tail => misaligned appends) and fixed in /repo (a52cbb8). Trusted: io model (read_exact fails only with EOF), stream_position, file model of db::open, utf-8 model.",
        "design_ref": "DESIGN.md §6 C07",
    },
    "C08": {
        "text": "Unbounded proof (Verus) on the real text of db.rs: Writer::write_build appends, in one write per record, first a path record for every file not yet logged (ids in order) and then exactly enc_build(ids_of(outs), ids_of(discovered deps), hash), where each id maps back to that file (idmap_inv); Reader::read_build decodes exactly those fields and applies the record to build b iff the record names at least one output and every named output currently has b as its producer (target_of), in which case b's discovered inputs and hash are replaced (latest record wins) and nothing else changes; otherwise graph and hashes are unchanged. u16/u24/u64 codecs proved inverse by bit-vector lemmas.",
        "note": "Trusted: io model, utf-8 model, le-bytes wrappers, id_from_canonical stub. Field-width limits are stated preconditions (D8). Genuine defect D13 found by this contract and fixed in /repo (record applied although one named output had no producer).",
        "design_ref": "DESIGN.md §6 C08",
    },
    "C01": {
        "text": "Unbounded proof (Verus) over the real text of BuildStates::{set,want_build,want_file,pop_ready,pop_queued,enqueue,get_pool} and Work::{recheck_ready,ready_dependents,run}: the loop invariant of Work::run (inv1: every build in state Ready/Queued/Running/Done/Failed has all producers of its explicit, implicit and order-only inputs Done; only legal state transitions; queues hold each id once) is preserved by every statement, and the trusted effect boundary Runner::start is called only with `id not started before` and, via the state vector, only for a build whose producers are all Done. Readiness is computed from ordering_ins only (validation and discovered inputs provably play no role). Holds for every graph, state vector, -j/-k, pool set and completion order (wait() returns an arbitrary live build with an arbitrary outcome).",
        "note": "Trusted: which thread runs what (Runner's live/started sets; its counters and spawned closure are verified in unit task), get_pool's two assumes, HashSet model, dirty-check stubs' frames, u32 ids. 'Completed successfully' is the decoding of the wait status proved in unit proc.",
        "design_ref": "DESIGN.md §6 C01",
    },
    "C04": {
        "text": "Unbounded proof (Verus): Runner::start requires |live| < parallelism at its only call site; BuildStates::set(.., Running) is reachable only through pop_queued, whose verified contract returns the head of the first pool with depth == 0 or running < depth; per-pool running counters are proved exact (pool_inv: running == number of Running builds resolved to that pool, <= depth when depth > 0) across every transition incl. failures; enqueue returns Err iff the build's pool name matches no declared pool.",
        "note": "Trusted: as C01; plus the representation axiom |live| == Runner.running, par == parallelism (unit task proves the real counter arithmetic against the same clauses the scheduler assumes). The parser's depth value (str::parse) is trusted; unit load: a `pool` statement registers the pool under its own name with the depth it declares (assertion after `self.pools.insert(..)` in parse_with_parser); that Loader.pools reaches Work::new unchanged is unit run's protocol.",
        "design_ref": "DESIGN.md §6 C04",
    },
    "C05": {
        "text": "Unbounded proof (Verus): (a) a build becomes Ready only if every ordering producer is Done (Failed is not Done and is absorbing), so nothing downstream of a failure starts; (b) record_finished has precondition termination == Success, discharged at both call sites of Work::run; (c) loop invariant `failures_left == Some(k) => k >= 1`: when the budget is used up run returns at once; Work::run returns Ok(true) only if every wanted build is Done (all_settled) and no command failed.",
        "note": "Trusted: as C01. Wait-status decoding (unit proc), run_task's pass-through and the error-to-Failure mapping of the spawned closure (unit task), build()/run_impl result mapping and parse_args' -k handling (unit run) and main.rs (exit status) are verified. Genuine defect D15 (-k 0 underflow) found by parse_args' contract and fixed in /repo (3ebad8d). The liveness half ('still brought up to date') is C06's.",
        "design_ref": "DESIGN.md §6 C05",
    },
    "C06": {
        "text": "Unbounded proof (Verus) of termination and of the absence of the internal-error stall: every loop of the scheduler and the mutually recursive want_build/want_file carry a decreases measure (potential sum of 5-rank over all builds for Work::run and its inner loops; lexicographic (#Unknown builds, #files - stack depth, fn) for the recursion, using a pigeonhole lemma on the duplicate-free stack); validation edges start a fresh stack only after the build left Unknown. Readiness never waits for validation inputs (want_build's Ready decision is taken before they are visited).",
        "note": "C06(a) -- the internal-error panic is unreachable -- is proved from a liveness invariant that includes acyclicity of the wanted sub-graph (itself proved: want_build/want_file maintain a topological numbering); preconditions of Work::run left to callers: -j >= 1 (proved for parse_args' result), dependents lists complete (proved for Graph::add_build). Trusted: as C01; external commands terminate.",
        "design_ref": "DESIGN.md §6 C06",
    },
    "C14": {
        "text": "Unbounded proof (Verus) on the real text of Graph::add_build and BuildOuts::remove_duplicates: add_build returns Err iff some listed output already has a producing statement; on Ok the graph invariant wf_graph holds (every output of every build names exactly that build as producer, no duplicates in any output list) and the new build's outputs are the first-occurrence de-duplication of the listed ones with the explicit count = number of distinct explicit outputs. Holds for all graphs, all output lists, all multiplicities.",
        "note": "Trusted: Verus/z3; #builds,#files < 2^32; derive(PartialEq) structural; std::mem::replace spec; Vec length <= usize::MAX; message text dropped (R4) so 'citing both statements' is not checked; spelling-equivalence is C13's job (canonicalisation) and the hash-map in GraphFiles::id_from_canonical is trusted; 'nothing is run' follows from load::read returning Err before Work::new (not verified here).",
        "design_ref": "DESIGN.md §6 C14",
    },
}
