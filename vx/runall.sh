#!/bin/bash
# run every registered quick check on /repo, 4 at a time; print the last line of each
cd /verif
ids=$(python3 -c "import json; print(' '.join(c['property_id'] for c in json.load(open('MANIFEST.json'))['checks']))")
printf '%s\n' $ids | xargs -P 4 -I{} sh -c 'out=$(python3 check.py {} --tier ${1:-quick} 2>&1); rc=$?; echo "{} rc=$rc $(echo "$out" | grep -E "^(OK|VIOLATION|UNDECIDED|KNOWN)" | cut -c1-150 | tr "\n" ";")"' _ "$1"
