"""regenerate MANIFEST.json from vx/props.py + the not_applicable table"""
import json, os, sys
sys.path.insert(0, os.path.dirname(os.path.dirname(os.path.abspath(__file__))))
from vx.props import PROPS, NOT_APPLICABLE, LEVEL_TEXT
V = os.path.dirname(os.path.dirname(os.path.abspath(__file__)))
ids = [json.loads(l)["id"] for l in open(os.path.join(V, "properties.jsonl"))]
checks = []
for pid in ids:
    if pid in PROPS:
        c = PROPS[pid]
        lt = LEVEL_TEXT[pid]
        checks.append({
            "property_id": pid,
            "quick_cmd": "python3 /verif/check.py %s --tier quick" % pid,
            "thorough_cmd": "python3 /verif/check.py %s --tier thorough" % pid,
            "evidence_file": "/verif/evidence/%s.json" % pid,
            "replay_cmd_template": "cat {path}",
            "engine": lt.get("engine", "verus"),
            "level_claimed": {"category": c.get("level", "proof"), "text": lt["text"], "design_ref": lt.get("design_ref", "DESIGN.md §6")},
            "level_note": lt["note"],
            "technique": lt.get("technique", "contract-based deductive verification (Verus) of mechanically extracted real functions"),
        })
na = [{"property_id": p, "reason": NOT_APPLICABLE.get(p, "check not yet implemented at this commit (work in progress)")} for p in ids if p not in PROPS]
m = {
    "version": 1,
    "setup_cmd": "cd /verif/vx-extract && cargo build --release --offline",
    "hooks": {"guard": "n2_verif", "enable": "none needed: checks extract source text from /repo's working tree; no hooks in /repo",
              "baseline_off_cmd": "cd /repo && cargo test --workspace --no-fail-fast --offline", "source_commits": [], "add_only": True},
    "engines": [
        {"name": "vx-extract + vx driver", "path": "/verif/vx-extract, /verif/vx", "serves_properties": sorted(PROPS.keys()),
         "kind_free_text": "syn-based mechanical extraction of real functions from /repo, sidecar contracts woven as attributes, Verus 0.2026.09.13 (z3) discharges obligations"},
        {"name": "kani harnesses", "path": "/verif/kani", "serves_properties": sorted(p for p in PROPS if PROPS[p].get("kani")),
         "kind_free_text": "Kani 0.68 / CBMC on a scratch copy of the real crate; complete loop-free harnesses or labelled bounded stand-ins"},
    ],
    "checks": checks,
    "notes": "contract-based deductive verification; see DESIGN.md. exit 2 of a check = undecided (lost anchor / unsupported construct), never reported as violation.",
    "not_applicable": na,
}
json.dump(m, open(os.path.join(V, "MANIFEST.json"), "w"), indent=1)
print("checks:", [c["property_id"] for c in checks], "n/a:", len(na))
