"""Kani harness groups (filled in later)."""
def run_group(grp, work, tier):
    return {"cmd": "none", "wall_s": 0.0, "undecided": ["kani group %s not implemented" % grp], "checks": 0,
            "bounds": [], "harnesses": [], "failures": [], "trusted": []}
