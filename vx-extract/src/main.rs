//! vx-extract: mechanical extraction support for /verif.
//!
//! Reads one Rust source file, prints JSON describing every item (byte spans,
//! attributes, impl headers, loops in function bodies) plus the list of
//! syntactic rewrite edits (rules R1, R2, R3, R5, R6, R10, R11 of DESIGN.md §2.1).
//! Nothing is decided here: the Python driver selects items and applies edits.
//!
//! usage: vx-extract <file.rs>

use proc_macro2::Span;
use serde_json::{json, Value};
use syn::spanned::Spanned;
use syn::visit::{self, Visit};

struct Edit {
    start: usize,
    end: usize,
    text: String,
    rule: &'static str,
    prio: i32,
}

/// R21: a helper function that is not part of the unit but is called from it, and whose body is a single expression,
/// is inlined at the call: `f(a, b)` -> `{ let p = a; let q = b; (BODY) }`, `x.m(a)` -> `{ let vx_self = &x; let p = a; (BODY[self := vx_self]) }`.
/// (A call into a helper without contract says nothing to a modular verifier; inlining a pure one-expression helper is
/// semantics preserving.)  Names to inline and the files to look them up in come from VX_INLINE / VX_DEFS.
#[derive(Clone)]
struct InlineDef { params: Vec<String>, recv: u8 /* 0 none, 1 by value, 2 by ref */, body: String }
static INLINE: std::sync::OnceLock<std::collections::HashMap<String, InlineDef>> = std::sync::OnceLock::new();

struct BodyCheck { bad: bool }
impl<'ast> Visit<'ast> for BodyCheck {
    fn visit_expr_return(&mut self, _r: &'ast syn::ExprReturn) { self.bad = true; }
    fn visit_expr_try(&mut self, _t: &'ast syn::ExprTry) { self.bad = true; }
    fn visit_expr_closure(&mut self, _c: &'ast syn::ExprClosure) { self.bad = true; }
    fn visit_macro(&mut self, m: &'ast syn::Macro) { if !m.path.is_ident("matches") { self.bad = true; } }
}
fn inline_def_of(sig: &syn::Signature, block: &syn::Block, src: &str) -> Option<InlineDef> {
    if block.stmts.len() != 1 { return None; }
    let e = match &block.stmts[0] { syn::Stmt::Expr(e, None) => e, _ => return None };
    let mut bc = BodyCheck { bad: false };
    bc.visit_expr(e);
    if bc.bad { return None; }
    let mut params = Vec::new();
    let mut recv = 0u8;
    for a in sig.inputs.iter() {
        match a {
            syn::FnArg::Receiver(r) => { recv = if r.reference.is_some() { 2 } else { 1 }; if r.mutability.is_some() && r.reference.is_some() { return None; } }
            syn::FnArg::Typed(t) => match &*t.pat { syn::Pat::Ident(i) if i.by_ref.is_none() => params.push(i.ident.to_string()), _ => return None },
        }
    }
    let (bs, be) = br(e.span());
    Some(InlineDef { params, recv, body: src[bs..be].to_string() })
}
fn load_inline_defs() -> std::collections::HashMap<String, InlineDef> {
    let mut out = std::collections::HashMap::new();
    let names: Vec<String> = std::env::var("VX_INLINE").unwrap_or_default().split(',').filter(|s| !s.is_empty()).map(|s| s.to_string()).collect();
    if names.is_empty() { return out; }
    for f in std::env::var("VX_DEFS").unwrap_or_default().split(':').filter(|s| !s.is_empty()) {
        let src = match std::fs::read_to_string(f) { Ok(s) => s, Err(_) => continue };
        let file = match syn::parse_file(&src) { Ok(f) => f, Err(_) => continue };
        for it in &file.items {
            match it {
                syn::Item::Fn(f) => { let n = f.sig.ident.to_string(); if names.contains(&n) { if let Some(d) = inline_def_of(&f.sig, &f.block, &src) { out.entry(n).or_insert(d); } } }
                syn::Item::Impl(im) => for ii in &im.items { if let syn::ImplItem::Fn(f) = ii {
                    let n = f.sig.ident.to_string(); if names.contains(&n) { if let Some(d) = inline_def_of(&f.sig, &f.block, &src) { out.entry(n).or_insert(d); } } } },
                _ => {}
            }
        }
    }
    out
}
fn replace_self(body: &str) -> String {
    let mut out = String::new();
    let b = body.as_bytes();
    let mut i = 0;
    while i < b.len() {
        if body[i..].starts_with("self") {
            let before_ok = i == 0 || !(b[i - 1].is_ascii_alphanumeric() || b[i - 1] == b'_');
            let after = i + 4;
            let after_ok = after >= b.len() || !(b[after].is_ascii_alphanumeric() || b[after] == b'_');
            if before_ok && after_ok { out.push_str("vx_self"); i += 4; continue; }
        }
        out.push(b[i] as char);
        i += 1;
    }
    out
}

struct Cx<'s> {
    src: &'s str,
    items: Vec<Value>,
    edits: Vec<Edit>,
}

fn br(sp: Span) -> (usize, usize) {
    let r = sp.byte_range();
    (r.start, r.end)
}

fn norm(s: &str) -> String {
    s.split_whitespace().collect::<Vec<_>>().join(" ")
}

impl<'s> Cx<'s> {
    fn text(&self, a: usize, b: usize) -> &str {
        &self.src[a..b]
    }
    fn edit(&mut self, start: usize, end: usize, text: impl Into<String>, rule: &'static str) {
        self.edits.push(Edit {
            start,
            end,
            text: text.into(),
            rule,
            prio: 0,
        });
    }
    fn line_of(&self, ofs: usize) -> usize {
        self.src[..ofs].bytes().filter(|&b| b == b'\n').count() + 1
    }

    fn attrs_json(&self, attrs: &[syn::Attribute]) -> Vec<Value> {
        attrs
            .iter()
            .map(|a| {
                let (s, e) = br(a.span());
                json!({"start": s, "end": e, "text": self.text(s, e), "path": path_str(a.path())})
            })
            .collect()
    }

    fn is_cfg_test(&self, attrs: &[syn::Attribute]) -> bool {
        attrs.iter().any(|a| {
            if !a.path().is_ident("cfg") {
                return false;
            }
            let (s, e) = br(a.span());
            let t: String = self.text(s, e).split_whitespace().collect();
            t == "#[cfg(test)]" || t == "#[test]"
        }) || attrs.iter().any(|a| a.path().is_ident("test"))
    }

    /// R10: reduce derive lists to what Verus models.
    fn derive_edits(&mut self, attrs: &[syn::Attribute]) {
        for a in attrs {
            if a.path().is_ident("derive") {
                let (s, e) = br(a.span());
                let mut keep: Vec<String> = Vec::new();
                let _ = a.parse_nested_meta(|m| {
                    let p = path_str(&m.path);
                    if matches!(p.as_str(), "Copy" | "Clone" | "PartialEq" | "Eq") {
                        keep.push(p);
                    }
                    Ok(())
                });
                let new = if keep.is_empty() {
                    String::new()
                } else {
                    format!("#[derive({})]", keep.join(", "))
                };
                if norm(self.text(s, e)) != norm(&new) {
                    self.edit(s, e, new, "R10");
                }
            }
        }
    }

    /// R11: widen visibility to pub.
    fn vis_edit(&mut self, vis: &syn::Visibility, insert_at: usize) {
        match vis {
            syn::Visibility::Public(_) => {}
            syn::Visibility::Restricted(r) => {
                let (s, e) = br(r.span());
                self.edit(s, e, "pub", "R11");
            }
            syn::Visibility::Inherited => {
                self.edit(insert_at, insert_at, "pub ", "R11");
            }
        }
    }

    fn item_common(&self, kind: &str, name: &str, path: &str, sp: Span, attrs: &[syn::Attribute]) -> Value {
        let (s, e) = br(sp);
        let core = attrs
            .iter()
            .map(|a| br(a.span()).1)
            .max()
            .unwrap_or(s);
        json!({
            "kind": kind, "name": name, "path": path,
            "start": s, "end": e, "core_start": core,
            "line": self.line_of(s), "line_end": self.line_of(e),
            "attrs": self.attrs_json(attrs),
            "cfg_test": self.is_cfg_test(attrs),
        })
    }

    fn do_items(&mut self, items: &[syn::Item], prefix: &str) {
        for it in items {
            self.do_item(it, prefix);
        }
    }

    fn do_fn(
        &mut self,
        prefix: &str,
        sp: Span,
        attrs: &[syn::Attribute],
        vis: Option<&syn::Visibility>,
        sig: &syn::Signature,
        block: Option<&syn::Block>,
        in_trait_impl: bool,
        parent: Option<usize>,
    ) {
        let name = sig.ident.to_string();
        let path = format!("{}{}", prefix, name);
        let mut v = self.item_common("fn", &name, &path, sp, attrs);
        let sig_start = vis
            .and_then(|v| match v {
                syn::Visibility::Inherited => None,
                _ => Some(br(v.span()).0),
            })
            .unwrap_or_else(|| br(sig.span()).0);
        v["sig_start"] = json!(sig_start);
        v["sig_end"] = json!(br(sig.span()).1);
        v["sig_text"] = json!(self.text(br(sig.span()).0, br(sig.span()).1));
        v["has_self"] = json!(sig.receiver().is_some());
        v["fn_generics"] = json!(if sig.generics.params.is_empty() { String::new() } else {
            let (a, b) = br(sig.generics.params.span()); self.text(a, b).to_string() });
        v["inputs"] = json!(if sig.inputs.is_empty() { String::new() } else {
            let (a, b) = br(sig.inputs.span()); self.text(a, b).to_string() });
        v["output"] = json!(match &sig.output { syn::ReturnType::Default => String::new(), syn::ReturnType::Type(_, t) => {
            let (a, b) = br(t.span()); self.text(a, b).to_string() } });
        v["parent"] = json!(parent);
        if let (Some(vis), false) = (vis, in_trait_impl) {
            self.vis_edit(vis, br(sig.span()).0);
        }
        // R15: `name: fn(a: A) -> R` parameter types -> `name: impl Fn(A) -> R` (Verus: no function pointer types)
        for inp in sig.inputs.iter() {
            if let syn::FnArg::Typed(pt) = inp {
                if let syn::Type::BareFn(bf) = &*pt.ty {
                    let (a, b) = br(bf.span());
                    let args: Vec<String> = bf.inputs.iter().map(|x| { let (s, e) = br(x.ty.span()); self.text(s, e).to_string() }).collect();
                    let ret = match &bf.output { syn::ReturnType::Default => String::new(), syn::ReturnType::Type(_, t) => { let (s, e) = br(t.span()); format!(" -> {}", self.text(s, e)) } };
                    self.edit(a, b, format!("impl Fn({}){}", args.join(", "), ret), "R15");
                }
            }
        }
        if let Some(b) = block {
            let (bs, be) = br(b.span());
            v["body_start"] = json!(bs);
            v["body_end"] = json!(be);
            let mut fv = FnVisitor {
                cx: self,
                loops: Vec::new(),
                r6n: 0,
                r2n: 0,
                r12n: 0,
                r14n: 0,
                n_index: 0,
                n_arith: 0,
                n_unwrap: 0,
                n_panic: 0,
                n_calls: 0,
            };
            fv.visit_block(b);
            v["loops"] = json!(fv.loops);
            v["r6_count"] = json!(fv.r6n);
            v["safety"] = json!({"index": fv.n_index, "arith": fv.n_arith, "unwrap": fv.n_unwrap, "panic": fv.n_panic, "calls": fv.n_calls});
        }
        self.items.push(v);
    }

    fn do_item(&mut self, it: &syn::Item, prefix: &str) {
        match it {
            syn::Item::Fn(f) => {
                self.do_fn(prefix, f.span(), &f.attrs, Some(&f.vis), &f.sig, Some(&f.block), false, None);
            }
            syn::Item::Struct(s) => {
                let name = s.ident.to_string();
                let v = self.item_common("struct", &name, &format!("{}{}", prefix, name), s.span(), &s.attrs);
                self.derive_edits(&s.attrs);
                self.vis_edit(&s.vis, br(s.struct_token.span()).0);
                for f in s.fields.iter() {
                    let at = match &f.ident {
                        Some(i) => br(i.span()).0,
                        None => br(f.ty.span()).0,
                    };
                    self.vis_edit(&f.vis, at);
                }
                self.items.push(v);
            }
            syn::Item::Enum(s) => {
                let name = s.ident.to_string();
                let v = self.item_common("enum", &name, &format!("{}{}", prefix, name), s.span(), &s.attrs);
                self.derive_edits(&s.attrs);
                self.vis_edit(&s.vis, br(s.enum_token.span()).0);
                self.items.push(v);
            }
            syn::Item::Type(s) => {
                let name = s.ident.to_string();
                let v = self.item_common("type", &name, &format!("{}{}", prefix, name), s.span(), &s.attrs);
                self.vis_edit(&s.vis, br(s.type_token.span()).0);
                self.items.push(v);
            }
            syn::Item::Const(s) => {
                let name = s.ident.to_string();
                let v = self.item_common("const", &name, &format!("{}{}", prefix, name), s.span(), &s.attrs);
                self.vis_edit(&s.vis, br(s.const_token.span()).0);
                self.items.push(v);
            }
            syn::Item::Static(s) => {
                let name = s.ident.to_string();
                let v = self.item_common("static", &name, &format!("{}{}", prefix, name), s.span(), &s.attrs);
                self.items.push(v);
            }
            syn::Item::Use(s) => {
                let v = self.item_common("use", "", "", s.span(), &s.attrs);
                self.items.push(v);
            }
            syn::Item::Trait(t) => {
                let name = t.ident.to_string();
                let mut v = self.item_common("trait", &name, &format!("{}{}", prefix, name), t.span(), &t.attrs);
                let (bo, bc) = (br(t.brace_token.span.open()).0, br(t.brace_token.span.close()).0);
                v["brace_open"] = json!(bo);
                v["brace_close"] = json!(bc);
                self.vis_edit(&t.vis, br(t.trait_token.span()).0);
                let idx = self.items.len();
                self.items.push(v);
                for ti in &t.items {
                    if let syn::TraitItem::Fn(f) = ti {
                        self.do_fn(
                            &format!("{}{}::", prefix, name),
                            f.span(),
                            &f.attrs,
                            None,
                            &f.sig,
                            f.default.as_ref(),
                            true,
                            Some(idx),
                        );
                    }
                }
            }
            syn::Item::Impl(im) => {
                let (ts, te) = br(im.self_ty.span());
                let self_ty: String = self.text(ts, te).split_whitespace().collect();
                let base = base_type_name(&im.self_ty);
                let trait_s = im.trait_.as_ref().map(|(_, p, _)| {
                    let (a, b) = br(p.span());
                    self.text(a, b).split_whitespace().collect::<String>()
                });
                let name = match &trait_s {
                    Some(t) => format!("<{} as {}>", self_ty, t),
                    None => base.clone(),
                };
                let mut v = self.item_common("impl", &name, &format!("{}impl {}", prefix, name), im.span(), &im.attrs);
                let (bo, bc) = (br(im.brace_token.span.open()).0, br(im.brace_token.span.close()).0);
                v["brace_open"] = json!(bo);
                v["brace_close"] = json!(bc);
                v["self_ty"] = json!(self_ty);
                v["base"] = json!(base);
                v["trait"] = json!(trait_s);
                v["header"] = json!(norm(self.text(v["core_start"].as_u64().unwrap() as usize, bo)));
                v["impl_generics"] = json!(if im.generics.params.is_empty() { String::new() } else {
                    let (a, b) = br(im.generics.params.span()); self.text(a, b).to_string() });
                v["self_ty_text"] = json!(self.text(ts, te));
                let idx = self.items.len();
                self.items.push(v);
                let mprefix = match &trait_s {
                    Some(t) => format!("{}<{} as {}>::", prefix, self_ty, t),
                    None => format!("{}{}::", prefix, base),
                };
                for ii in &im.items {
                    match ii {
                        syn::ImplItem::Fn(f) => {
                            self.do_fn(
                                &mprefix,
                                f.span(),
                                &f.attrs,
                                Some(&f.vis),
                                &f.sig,
                                Some(&f.block),
                                trait_s.is_some(),
                                Some(idx),
                            );
                        }
                        syn::ImplItem::Type(t) => {
                            let n = t.ident.to_string();
                            let mut v = self.item_common("assoc_type", &n, &format!("{}{}", mprefix, n), t.span(), &t.attrs);
                            v["parent"] = json!(idx);
                            self.items.push(v);
                        }
                        syn::ImplItem::Const(t) => {
                            let n = t.ident.to_string();
                            let mut v = self.item_common("assoc_const", &n, &format!("{}{}", mprefix, n), t.span(), &t.attrs);
                            v["parent"] = json!(idx);
                            self.items.push(v);
                        }
                        _ => {}
                    }
                }
            }
            syn::Item::Mod(m) => {
                let name = m.ident.to_string();
                let v = self.item_common("mod", &name, &format!("{}{}", prefix, name), m.span(), &m.attrs);
                let is_test = v["cfg_test"].as_bool().unwrap();
                self.items.push(v);
                if !is_test {
                    if let Some((_, items)) = &m.content {
                        self.do_items(items, &format!("{}{}::", prefix, name));
                    }
                }
            }
            syn::Item::Macro(m) => {
                let v = self.item_common("macro", "", "", m.span(), &m.attrs);
                self.items.push(v);
            }
            _ => {}
        }
    }
}

fn path_str(p: &syn::Path) -> String {
    p.segments
        .iter()
        .map(|s| s.ident.to_string())
        .collect::<Vec<_>>()
        .join("::")
}

fn base_type_name(t: &syn::Type) -> String {
    match t {
        syn::Type::Path(p) => p
            .path
            .segments
            .last()
            .map(|s| s.ident.to_string())
            .unwrap_or_default(),
        syn::Type::Reference(r) => base_type_name(&r.elem),
        _ => "?".to_string(),
    }
}

/// Visits one function body: records loops and generates rewrite edits.
struct FnVisitor<'c, 's> {
    cx: &'c mut Cx<'s>,
    loops: Vec<Value>,
    r6n: usize,
    r2n: usize,
    r12n: usize,
    r14n: usize,
    n_index: usize,
    n_arith: usize,
    n_unwrap: usize,
    n_panic: usize,
    n_calls: usize,
}

/// finds `break EXPR` belonging to the current loop (not nested loops / closures)
struct BreakFinder { found: Vec<(usize, usize, usize, usize)>, depth: usize }
impl<'ast> Visit<'ast> for BreakFinder {
    fn visit_expr_break(&mut self, b: &'ast syn::ExprBreak) {
        if self.depth == 0 && b.label.is_none() {
            if let Some(e) = &b.expr {
                let (bs, be) = br(b.span());
                let (es, ee) = br(e.span());
                self.found.push((bs, be, es, ee));
            }
        }
        visit::visit_expr_break(self, b);
    }
    fn visit_expr_loop(&mut self, l: &'ast syn::ExprLoop) { self.depth += 1; visit::visit_expr_loop(self, l); self.depth -= 1; }
    fn visit_expr_while(&mut self, l: &'ast syn::ExprWhile) { self.depth += 1; visit::visit_expr_while(self, l); self.depth -= 1; }
    fn visit_expr_for_loop(&mut self, l: &'ast syn::ExprForLoop) { self.depth += 1; visit::visit_expr_for_loop(self, l); self.depth -= 1; }
    fn visit_expr_closure(&mut self, _c: &'ast syn::ExprClosure) {}
    fn visit_item(&mut self, _i: &'ast syn::Item) {}
}

/// Collect `&ident` reference sub-patterns: (start, end, ident, is_mut).
fn ref_pats(p: &syn::Pat, out: &mut Vec<(usize, usize, String)>) {
    match p {
        syn::Pat::Reference(r) => {
            if let syn::Pat::Ident(pi) = &*r.pat {
                if pi.by_ref.is_none() && pi.subpat.is_none() && r.mutability.is_none() {
                    let (s, e) = br(r.span());
                    out.push((s, e, pi.ident.to_string()));
                    return;
                }
            }
            ref_pats(&r.pat, out);
        }
        syn::Pat::Tuple(t) => t.elems.iter().for_each(|e| ref_pats(e, out)),
        syn::Pat::TupleStruct(t) => t.elems.iter().for_each(|e| ref_pats(e, out)),
        syn::Pat::Struct(t) => t.fields.iter().for_each(|f| ref_pats(&f.pat, out)),
        syn::Pat::Paren(t) => ref_pats(&t.pat, out),
        syn::Pat::Or(t) => t.cases.iter().for_each(|e| ref_pats(e, out)),
        syn::Pat::Slice(t) => t.elems.iter().for_each(|e| ref_pats(e, out)),
        syn::Pat::Type(t) => ref_pats(&t.pat, out),
        _ => {}
    }
}

impl<'c, 's> FnVisitor<'c, 's> {
    /// R1 on a pattern whose bindings scope over the block opening at `body_open`.
    fn r1_block(&mut self, pat: &syn::Pat, body_open: usize) {
        let mut v = Vec::new();
        ref_pats(pat, &mut v);
        for (s, e, id) in v {
            self.cx.edit(s, e, format!("{}__r", id), "R1");
            self.cx
                .edit(body_open + 1, body_open + 1, format!(" let {} = *{}__r;", id, id), "R1");
        }
    }

    fn loop_rec(&mut self, kind: &str, sp: Span, attrs_end: usize, body: &syn::Block, label: bool) {
        let (s, _) = br(sp);
        let start = s.max(attrs_end);
        let bo = br(body.brace_token.span.open()).0;
        let bc = br(body.brace_token.span.close()).0;
        let header = norm(self.cx.text(start, bo));
        self.loops.push(json!({
            "ord": self.loops.len(), "kind": kind, "start": start, "body_open": bo, "body_close": bc,
            "header": header, "line": self.cx.line_of(start), "label": label,
        }));
    }
}

fn is_path_ending(e: &syn::Expr, tail: &[&str]) -> bool {
    if let syn::Expr::Path(p) = e {
        let segs: Vec<String> = p.path.segments.iter().map(|s| s.ident.to_string()).collect();
        if segs.len() >= tail.len() {
            return segs[segs.len() - tail.len()..]
                .iter()
                .zip(tail)
                .all(|(a, b)| a == b);
        }
    }
    false
}

impl<'c, 's, 'ast> Visit<'ast> for FnVisitor<'c, 's> {
    fn visit_expr_for_loop(&mut self, f: &'ast syn::ExprForLoop) {
        // R12 (+R1, R2): `for P in E { body }` is rewritten to its definition over a sequence cursor:
        //   { let mut vx_itN = IntoIterator::into_iter(E); while let Some(P') = vx_itN.next() { [binders] body } }
        // which is the language's own desugaring of `for`;
        // (Verus: "for-loops do not yet support continue"; one uniform loop form for all invariants.)
        let attrs_end = f.attrs.iter().map(|a| br(a.span()).1).max().unwrap_or(0);
        let ord = self.loops.len();
        self.loop_rec("for", f.span(), attrs_end, &f.body, f.label.is_some());
        let n = self.r12n;
        self.r12n += 1;
        let bo = br(f.body.brace_token.span.open()).0;
        let (fs, fe) = br(f.span());
        let fs = fs.max(attrs_end);
        let (es, ee) = br(f.expr.span());
        let mut pat: &syn::Pat = &f.pat;
        let mut expr_end = ee;
        let mut prologue = String::new();
        let mut pre = String::new();
        // R2: (i, P) in E.enumerate()
        if let syn::Expr::MethodCall(mc) = &*f.expr {
            if mc.method == "enumerate" && mc.args.is_empty() {
                if let syn::Pat::Tuple(t) = &*f.pat {
                    if t.elems.len() == 2 {
                        if let syn::Pat::Ident(ip) = &t.elems[0] {
                            let i = ip.ident.to_string();
                            let ctr = format!("{}__n{}", i, n);
                            pre = format!("let mut {}: usize = 0; ", ctr);
                            prologue = format!(" let {} = {}; {} += 1;", i, ctr, ctr);
                            pat = &t.elems[1];
                            expr_end = br(mc.receiver.span()).1;
                            self.cx.edit(expr_end, ee, "", "R2");
                        }
                    }
                }
            }
        }
        // pattern text with R1 applied
        let (ps, pe) = br(pat.span());
        let mut ptxt = self.cx.text(ps, pe).to_string();
        let mut refs = Vec::new();
        ref_pats(pat, &mut refs);
        refs.sort_by(|a, b| b.0.cmp(&a.0));
        for (s, e, id) in refs {
            ptxt.replace_range(s - ps..e - ps, &format!("{}__r", id));
            prologue.push_str(&format!(" let {} = *{}__r;", id, id));
        }
        self.cx.edit(
            fs,
            es,
            format!("{{ {}let mut vx_it{} = ::core::iter::IntoIterator::into_iter(", pre, n),
            "R12",
        );
        self.cx.edit(
            ee,
            bo,
            format!(
                "); /*@L12:{}*/ while let Some({}) = vx_it{}.next() ",
                ord, ptxt, n
            ),
            "R12",
        );
        if !prologue.is_empty() {
            self.cx.edit(bo + 1, bo + 1, prologue, "R12");
        }
        self.cx.edit(fe, fe, " }", "R12");
        if let Some(l) = self.loops.last_mut() {
            l["r12"] = json!(n);
        }
        // descend into iterated expression and body only (the pattern was copied)
        self.visit_expr(&f.expr);
        self.visit_block(&f.body);
    }

    fn visit_expr_while(&mut self, w: &'ast syn::ExprWhile) {
        let attrs_end = w.attrs.iter().map(|a| br(a.span()).1).max().unwrap_or(0);
        self.loop_rec("while", w.span(), attrs_end, &w.body, w.label.is_some());
        if let syn::Expr::Let(l) = &*w.cond {
            let bo = br(w.body.brace_token.span.open()).0;
            self.r1_block(&l.pat, bo);
        }
        visit::visit_expr_while(self, w);
    }

    fn visit_expr_loop(&mut self, l: &'ast syn::ExprLoop) {
        let attrs_end = l.attrs.iter().map(|a| br(a.span()).1).max().unwrap_or(0);
        // R14: `loop { .. break EXPR; .. }` used as a value -> `{ let vx_brkN; loop { .. { vx_brkN = EXPR; break; } .. } vx_brkN }`
        let mut bf = BreakFinder { found: Vec::new(), depth: 0 };
        bf.visit_block(&l.body);
        if !bf.found.is_empty() && l.label.is_none() {
            let n = self.r14n;
            self.r14n += 1;
            let (ls, le) = br(l.span());
            let ls = ls.max(attrs_end);
            self.cx.edit(ls, ls, format!("{{ let vx_brk{}; ", n), "R14");
            for (bs, be, es, ee) in bf.found {
                self.cx.edit(bs, es, format!("{{ vx_brk{} = ", n), "R14");
                self.cx.edit(ee, be, "; break }", "R14");
            }
            self.cx.edit(le, le, format!(" vx_brk{} }}", n), "R14");
        }
        self.loop_rec("loop", l.span(), attrs_end, &l.body, l.label.is_some());
        visit::visit_expr_loop(self, l);
    }

    /// R20: `match S { "a" => X, "b" | "c" => Y, _ => Z }` (string-literal patterns only, no guards) ->
    /// `{ let vx_mN = S; if vx_mN == "a" { X } else if vx_mN == "b" || vx_mN == "c" { Y } else { Z } }`
    /// (Verus gives string-literal patterns no meaning; `==` on str has a specification)
    fn visit_expr_match(&mut self, m: &'ast syn::ExprMatch) {
        fn lits(p: &syn::Pat, out: &mut Vec<String>) -> bool {
            match p {
                syn::Pat::Lit(l) => { if let syn::Lit::Str(s) = &l.lit { out.push(s.token().to_string()); true } else { false } }
                syn::Pat::Or(o) => o.cases.iter().all(|c| lits(c, out)),
                _ => false,
            }
        }
        let n = m.arms.len();
        let mut conds: Vec<Option<String>> = Vec::new();
        let mut ok = n >= 2;
        for (i, arm) in m.arms.iter().enumerate() {
            if arm.guard.is_some() { ok = false; break; }
            if let syn::Pat::Wild(_) = arm.pat { if i == n - 1 { conds.push(None); continue; } else { ok = false; break; } }
            let mut v = Vec::new();
            if !lits(&arm.pat, &mut v) { ok = false; break; }
            conds.push(Some(v.join("\u{1}")));
        }
        if ok && conds.iter().any(|c| c.is_some()) && conds.last().map(|c| c.is_none()).unwrap_or(false) {
            let k = self.r14n; self.r14n += 1;
            let var = format!("vx_m{}", k);
            let (ms, _) = br(m.span());
            let mstart = m.attrs.iter().map(|a| br(a.span()).1).max().unwrap_or(ms).max(ms);
            let (es, ee) = br(m.expr.span());
            let bo = br(m.brace_token.span.open());
            let scrut = self.cx.text(es, ee).to_string();
            self.cx.edit(mstart, bo.1, format!("{{ let {} = {}; ", var, scrut), "R20");
            for (i, arm) in m.arms.iter().enumerate() {
                let (ps, _) = br(arm.pat.span());
                let (_, ae) = br(arm.fat_arrow_token.span());
                let head = match &conds[i] {
                    Some(c) => {
                        let cond = c.split('\u{1}').map(|l| format!("{} == {}", var, l)).collect::<Vec<_>>().join(" || ");
                        format!("{}if {} {{", if i == 0 { "" } else { "else " }, cond)
                    }
                    None => "else {".to_string(),
                };
                self.cx.edit(ps, ae, head, "R20");
                let (_, be) = br(arm.body.span());
                match &arm.comma {
                    Some(c) => { let (cs, ce) = br(c.span()); self.cx.edit(be, be, " }", "R20"); self.cx.edit(cs, ce, "", "R20"); }
                    None => { self.cx.edit(be, be, " }", "R20"); }
                }
            }
        }
        visit::visit_expr_match(self, m);
    }

    fn visit_expr_if(&mut self, i: &'ast syn::ExprIf) {
        if let syn::Expr::Let(l) = &*i.cond {
            let bo = br(i.then_branch.brace_token.span.open()).0;
            self.r1_block(&l.pat, bo);
        }
        visit::visit_expr_if(self, i);
    }

    fn visit_local(&mut self, l: &'ast syn::Local) {
        // let PAT = e else { .. };  with reference sub-patterns
        let mut v = Vec::new();
        ref_pats(&l.pat, &mut v);
        if !v.is_empty() {
            let (_, e) = br(l.span());
            for (s, en, id) in v {
                self.cx.edit(s, en, format!("{}__r", id), "R1");
                self.cx.edit(e, e, format!(" let {} = *{}__r;", id, id), "R1");
            }
        }
        visit::visit_local(self, l);
    }

    fn visit_arm(&mut self, a: &'ast syn::Arm) {
        let mut v = Vec::new();
        ref_pats(&a.pat, &mut v);
        if !v.is_empty() {
            let (bs, be) = br(a.body.span());
            let mut pre = String::from("{ ");
            for (s, e, id) in v {
                self.cx.edit(s, e, format!("{}__r", id), "R1");
                pre.push_str(&format!("let {} = *{}__r; ", id, id));
            }
            self.cx.edit(bs, bs, pre, "R1");
            self.cx.edit(be, be, " }", "R1");
        }
        visit::visit_arm(self, a);
    }

    fn visit_stmt(&mut self, s: &'ast syn::Stmt) {
        // R5: elide `std::thread::spawn(..);` statements.
        if let syn::Stmt::Expr(syn::Expr::Call(c), Some(_)) = s {
            if is_path_ending(&c.func, &["thread", "spawn"]) && std::env::var("VX_KEEP_SPAWN").is_err() {
                let (a, b) = br(s.span());
                self.cx.edit(a, b, "/* R5: thread::spawn elided */", "R5");
                return; // do not descend
            }
        }
        visit::visit_stmt(self, s);
    }

    fn visit_expr_call(&mut self, c: &'ast syn::ExprCall) {
        self.n_calls += 1;
        // R21: inline a one-expression helper that is not part of the unit
        if let syn::Expr::Path(pth) = &*c.func {
            if let Some(last) = pth.path.segments.last() {
                let defs = INLINE.get_or_init(load_inline_defs);
                if let Some(d) = defs.get(&last.ident.to_string()) {
                    if d.recv == 0 && d.params.len() == c.args.len() {
                        let (cs, ce) = br(c.span());
                        let mut t = String::from("{ ");
                        for (p, a) in d.params.iter().zip(c.args.iter()) {
                            let (as_, ae) = br(a.span());
                            t.push_str(&format!("let {} = {}; ", p, self.cx.text(as_, ae)));
                        }
                        t.push_str(&format!("({}) }}", d.body));
                        self.cx.edit(cs, ce, t, "R21");
                        return;
                    }
                }
            }
        }
        // R3: assert_unchecked(c) -> assert!(c)
        if is_path_ending(&c.func, &["assert_unchecked"]) {
            let (a, b) = br(c.func.span());
            self.cx.edit(a, b, "assert!", "R3");
        }
        // R5: trace::scope(name, || e) -> (e)
        if is_path_ending(&c.func, &["trace", "scope"]) && c.args.len() == 2 {
            if let syn::Expr::Closure(cl) = &c.args[1] {
                if cl.inputs.is_empty() {
                    let (cs, ce) = br(c.span());
                    let (bs, be) = br(cl.body.span());
                    self.cx.edit(cs, bs, "(", "R5");
                    self.cx.edit(be, ce, ")", "R5");
                    self.visit_expr(&cl.body);
                    return;
                }
            }
        }
        visit::visit_expr_call(self, c);
    }

    fn visit_expr_method_call(&mut self, m: &'ast syn::ExprMethodCall) {
        let name = m.method.to_string();
        self.n_calls += 1;
        {
            let defs = INLINE.get_or_init(load_inline_defs);
            if let Some(d) = defs.get(&name) {
                if d.recv != 0 && d.params.len() == m.args.len() {
                    let (cs, ce) = br(m.span());
                    let (rs, re) = br(m.receiver.span());
                    let mut t = format!("{{ let vx_self = {}({}); ", if d.recv == 2 { "&" } else { "" }, self.cx.text(rs, re));
                    for (p, a) in d.params.iter().zip(m.args.iter()) {
                        let (as_, ae) = br(a.span());
                        t.push_str(&format!("let {} = {}; ", p, self.cx.text(as_, ae)));
                    }
                    t.push_str(&format!("({}) }}", replace_self(&d.body)));
                    self.cx.edit(cs, ce, t, "R21");
                    return;
                }
            }
        }
        if name == "unwrap" || name == "expect" {
            self.n_unwrap += 1;
        }
        // R3: recv.get_unchecked(e) -> (&recv[e])
        if name == "get_unchecked" && m.args.len() == 1 {
            let (rs, re) = br(m.receiver.span());
            let (as_, ae) = br(m.args[0].span());
            let (_, me) = br(m.span());
            self.cx.edit(rs, rs, "(&", "R3");
            self.cx.edit(re, as_, "[", "R3");
            self.cx.edit(ae, me, "])", "R3");
            visit::visit_expr_method_call(self, m);
            return;
        }
        // R13: eta-expand a function path passed to `.map(..)`: `.map(F)` -> `.map(|vx_x| F(vx_x))`
        // (Verus: "using a datatype constructor as a function value" is unsupported)
        if name == "map" && m.args.len() == 1 {
            if let syn::Expr::Path(p) = &m.args[0] {
                let (a, b) = br(p.span());
                let t = self.cx.text(a, b).to_string();
                self.cx.edit(a, b, format!("|vx_x| {}(vx_x)", t), "R13");
            }
        }
        // R6: RECV.iter().position(|PAT| BODY) / .any(|PAT| BODY) -> explicit loop
        if (name == "position" || name == "any") && m.args.len() == 1 {
            if let (syn::Expr::MethodCall(inner), syn::Expr::Closure(cl)) = (&*m.receiver, &m.args[0]) {
                if inner.method == "iter" && inner.args.is_empty() && cl.inputs.len() == 1 {
                    let n = self.r6n;
                    self.r6n += 1;
                    let (rs, re) = br(inner.receiver.span());
                    let (ps, pe) = br(cl.inputs[0].span());
                    let (bs, be) = br(cl.body.span());
                    let (_, me) = br(m.span());
                    let (decl, hit) = if name == "position" {
                        ("let mut vx_r: Option<usize> = None;", "vx_r = Some(vx_i);")
                    } else {
                        ("let mut vx_r: bool = false;", "vx_r = true;")
                    };
                    self.cx.edit(rs, rs, "{ let vx_s = &(", "R6");
                    // pattern: `&x` binds by copy; anything else binds a reference
                    let mut by_copy = None;
                    if let syn::Pat::Reference(r) = &cl.inputs[0] {
                        if let syn::Pat::Ident(pi) = &*r.pat {
                            by_copy = Some(pi.ident.to_string());
                        }
                    }
                    match by_copy {
                        Some(id) => {
                            self.cx.edit(
                                re,
                                pe,
                                format!(
                                    "); let mut vx_i: usize = 0; {} /*@R6INV:{}*/ while vx_i < vx_s.len() {{ let {} = vx_s[vx_i];",
                                    decl, n, id
                                ),
                                "R6",
                            );
                            self.cx.edit(pe, bs, " if ", "R6");
                        }
                        None => {
                            self.cx.edit(
                                re,
                                ps,
                                format!(
                                    "); let mut vx_i: usize = 0; {} /*@R6INV:{}*/ while vx_i < vx_s.len() {{ let ",
                                    decl, n
                                ),
                                "R6",
                            );
                            self.cx.edit(pe, bs, " = &vx_s[vx_i]; if ", "R6");
                        }
                    }
                    self.cx.edit(
                        be,
                        me,
                        format!(" {{ {} break; }} vx_i += 1; }} vx_r }}", hit),
                        "R6",
                    );
                    self.visit_expr(&inner.receiver);
                    self.visit_expr(&cl.body);
                    return;
                }
            }
        }
        // R6: RECV.iter().rposition(|&c| BODY) -> explicit backwards scan
        if name == "rposition" && m.args.len() == 1 {
            if let (syn::Expr::MethodCall(inner), syn::Expr::Closure(cl)) = (&*m.receiver, &m.args[0]) {
                if inner.method == "iter" && inner.args.is_empty() && cl.inputs.len() == 1 {
                    if let syn::Pat::Reference(r) = &cl.inputs[0] {
                        if let syn::Pat::Ident(pi) = &*r.pat {
                            let id = pi.ident.to_string();
                            let n = self.r6n;
                            self.r6n += 1;
                            let (rs, re) = br(inner.receiver.span());
                            let (_, pe) = br(cl.inputs[0].span());
                            let (bs, be) = br(cl.body.span());
                            let (_, me) = br(m.span());
                            self.cx.edit(rs, rs, "{ let vx_s = &(", "R6");
                            self.cx.edit(
                                re,
                                pe,
                                format!(
                                    "); let mut vx_i: usize = vx_s.len(); let mut vx_r: Option<usize> = None; /*@R6RINV:{}*/ while vx_i > 0 {{ vx_i -= 1; let {} = vx_s[vx_i];",
                                    n, id
                                ),
                                "R6",
                            );
                            self.cx.edit(pe, bs, " if ", "R6");
                            self.cx.edit(be, me, " { vx_r = Some(vx_i); break; } } vx_r }", "R6");
                            self.visit_expr(&inner.receiver);
                            self.visit_expr(&cl.body);
                            return;
                        }
                    }
                }
            }
        }
        // R6: RECV.contains(&X) on slices / Vecs
        if name == "contains" && m.args.len() == 1 {
            // (LO..HI).contains(&X) / (LO..=HI).contains(&X): the comparison core defines it as (no loop)
            let mut recv: &syn::Expr = &m.receiver;
            while let syn::Expr::Paren(p) = recv {
                recv = &p.expr;
            }
            if let (syn::Expr::Range(rg), syn::Expr::Reference(_)) = (recv, &m.args[0]) {
                if let (Some(lo), Some(hi)) = (&rg.start, &rg.end) {
                    let (rs, _) = br(m.receiver.span());
                    let (ls, le) = br(lo.span());
                    let (hs, he) = br(hi.span());
                    let (as_, ae) = br(m.args[0].span());
                    let (_, me) = br(m.span());
                    let op = if let syn::RangeLimits::Closed(_) = rg.limits { "<=" } else { "<" };
                    self.cx.edit(rs, ls, "{ let vx_lo = ", "R6");
                    self.cx.edit(le, hs, "; let vx_hi = ", "R6");
                    self.cx.edit(he, as_, "; let vx_x = ", "R6");
                    self.cx.edit(ae, me, format!("; vx_lo <= *vx_x && *vx_x {} vx_hi }}", op), "R6");
                    visit::visit_expr_method_call(self, m);
                    return;
                }
            }
            if let syn::Expr::Reference(_) = &m.args[0] {
                let n = self.r6n;
                self.r6n += 1;
                let (rs, re) = br(m.receiver.span());
                let (as_, ae) = br(m.args[0].span());
                let (_, me) = br(m.span());
                self.cx.edit(rs, rs, "{ let vx_s = &(", "R6");
                self.cx.edit(re, as_, "); let vx_x = ", "R6");
                self.cx.edit(
                    ae,
                    me,
                    format!(
                        "; let mut vx_i: usize = 0; let mut vx_r: bool = false; /*@R6INV:{}*/ while vx_i < vx_s.len() {{ if vx_s[vx_i] == *vx_x {{ vx_r = true; break; }} vx_i += 1; }} vx_r }}",
                        n
                    ),
                    "R6",
                );
                visit::visit_expr_method_call(self, m);
                return;
            }
        }
        visit::visit_expr_method_call(self, m);
    }

    fn visit_expr_index(&mut self, i: &'ast syn::ExprIndex) {
        self.n_index += 1;
        visit::visit_expr_index(self, i);
    }
    fn visit_expr_binary(&mut self, b: &'ast syn::ExprBinary) {
        use syn::BinOp::*;
        if matches!(
            b.op,
            Add(_) | Sub(_) | Mul(_) | Div(_) | Rem(_) | Shl(_) | Shr(_) | AddAssign(_) | SubAssign(_)
                | MulAssign(_) | DivAssign(_) | RemAssign(_) | ShlAssign(_) | ShrAssign(_)
        ) {
            self.n_arith += 1;
        }
        visit::visit_expr_binary(self, b);
    }
    fn visit_macro(&mut self, m: &'ast syn::Macro) {
        let p = path_str(&m.path);
        if matches!(p.as_str(), "panic" | "assert" | "assert_eq" | "unreachable" | "unimplemented" | "todo") {
            self.n_panic += 1;
        }
        visit::visit_macro(self, m);
    }

    fn visit_expr_closure(&mut self, c: &'ast syn::ExprClosure) {
        // R16: `_` closure parameters -> named (Verus: "only variables are supported here")
        for (k, inp) in c.inputs.iter().enumerate() {
            if let syn::Pat::Wild(w) = inp {
                let (a, b) = br(w.span());
                self.cx.edit(a, b, format!("_vx_unused{}", k), "R16");
            }
        }
        visit::visit_expr_closure(self, c);
    }

    // do not descend into nested items
    fn visit_item(&mut self, _i: &'ast syn::Item) {}
}

/// R18 (pre-pass, source to source): `for P in A.chain(B) BODY` -> `for P in A BODY for P in B BODY`
/// (Verus has no model of iter::Chain).  The duplicate is put on the closing line so line numbers are preserved.
/// R19 (pre-pass): `for P in [e1, .., ek] BODY` (k <= 4, BODY without break/continue of this loop) is unrolled to
/// `{ let P = e1; BODY } .. { let P = ek; BODY }` (Verus has no model of array::IntoIter).
struct BrkFinder { depth: usize, found: bool }
impl<'ast> Visit<'ast> for BrkFinder {
    fn visit_expr_break(&mut self, b: &'ast syn::ExprBreak) { if self.depth == 0 || b.label.is_some() { self.found = true; } }
    fn visit_expr_continue(&mut self, c: &'ast syn::ExprContinue) { if self.depth == 0 || c.label.is_some() { self.found = true; } }
    fn visit_expr_for_loop(&mut self, f: &'ast syn::ExprForLoop) { self.depth += 1; visit::visit_expr_for_loop(self, f); self.depth -= 1; }
    fn visit_expr_while(&mut self, f: &'ast syn::ExprWhile) { self.depth += 1; visit::visit_expr_while(self, f); self.depth -= 1; }
    fn visit_expr_loop(&mut self, f: &'ast syn::ExprLoop) { self.depth += 1; visit::visit_expr_loop(self, f); self.depth -= 1; }
    fn visit_expr_closure(&mut self, _c: &'ast syn::ExprClosure) {}
}
struct ChainFinder { found: Vec<(usize, usize, usize, usize, usize, usize, usize, usize)>, arrays: Vec<(usize, usize, usize, Vec<(usize, usize)>, usize, usize)> }
impl<'ast> Visit<'ast> for ChainFinder {
    fn visit_expr_for_loop(&mut self, f: &'ast syn::ExprForLoop) {
        if let syn::Expr::Array(arr) = &*f.expr {
            let mut bf = BrkFinder { depth: 0, found: false };
            bf.visit_block(&f.body);
            if !bf.found && f.label.is_none() && arr.elems.len() >= 1 && arr.elems.len() <= 4 {
                let (fs, _) = br(f.span());
                let fstart = f.attrs.iter().map(|a| br(a.span()).1).max().unwrap_or(fs).max(fs);
                let (ps, pe) = br(f.pat.span());
                let elems: Vec<(usize, usize)> = arr.elems.iter().map(|e| br(e.span())).collect();
                let (bs, be) = br(f.body.span());
                self.arrays.push((fstart, ps, pe, elems, bs, be));
                return; // nested loops inside an unrolled body are not rewritten in the same pass
            }
        }
        if let syn::Expr::MethodCall(mc) = &*f.expr {
            if mc.method == "chain" && mc.args.len() == 1 {
                let (ps, pe) = br(f.pat.span());
                let (_, re) = br(mc.receiver.span());
                let (_, me) = br(mc.span());
                let (as_, ae) = br(mc.args[0].span());
                let (bs, be) = br(f.body.span());
                self.found.push((ps, pe, re, me, as_, ae, bs, be));
            }
        }
        visit::visit_expr_for_loop(self, f);
    }
}
fn strip_comments_one_line(t: &str) -> String {
    let mut out = String::new();
    for line in t.lines() {
        let l = match line.find("//") { Some(i) => &line[..i], None => line };
        out.push_str(l.trim());
        out.push(' ');
    }
    out
}
fn prepass(src: &str) -> String {
    let file = match syn::parse_file(src) { Ok(f) => f, Err(_) => return src.to_string() };
    let mut cf = ChainFinder { found: Vec::new(), arrays: Vec::new() };
    cf.visit_file(&file);
    let mut out = src.to_string();
    // apply from the end of the file backwards so offsets stay valid (the two kinds never nest in one pass)
    enum Rw { Chain(usize, usize, usize, usize, usize, usize, usize, usize), Arr(usize, usize, usize, Vec<(usize, usize)>, usize, usize) }
    let mut all: Vec<(usize, Rw)> = Vec::new();
    for (ps, pe, re, me, as_, ae, bs, be) in cf.found { all.push((be, Rw::Chain(ps, pe, re, me, as_, ae, bs, be))); }
    for (fs, ps, pe, el, bs, be) in cf.arrays { all.push((be, Rw::Arr(fs, ps, pe, el, bs, be))); }
    all.sort_by(|a, b| b.0.cmp(&a.0));
    let mut last_start = usize::MAX;
    for (_, rw) in all {
        match rw {
            Rw::Chain(ps, pe, re, me, as_, ae, bs, be) => {
                if be > last_start { continue; }
                let dup = format!(" for {} in {} {}", &src[ps..pe], &src[as_..ae], strip_comments_one_line(&src[bs..be]));
                out.insert_str(be, &dup);
                out.replace_range(re..me, "");
                last_start = ps;
            }
            Rw::Arr(fs, ps, pe, el, bs, be) => {
                if be > last_start { continue; }
                let mut tailtxt = String::from(" }");
                for (es, ee) in el.iter().skip(1) {
                    tailtxt.push_str(&format!(" {{ let {} = {}; {} }}", &src[ps..pe], strip_comments_one_line(&src[*es..*ee]), strip_comments_one_line(&src[bs..be])));
                }
                out.insert_str(be, &tailtxt);
                // header `for P in [..]` -> `{ let P = e1;` keeping the line structure of the header
                let nl = src[fs..bs].matches('\n').count();
                let head = format!("{{ let {} = {}; {}", &src[ps..pe], strip_comments_one_line(&src[el[0].0..el[0].1]), "\n".repeat(nl));
                out.replace_range(fs..bs, &head);
                last_start = fs;
            }
        }
    }
    out
}

fn main() {
    if std::env::args().nth(1).as_deref() == Some("--pre") {
        let path = std::env::args().nth(2).expect("usage: vx-extract --pre <file.rs>");
        let src = std::fs::read_to_string(&path).expect("read");
        print!("{}", prepass(&src));
        return;
    }
    let path = std::env::args().nth(1).expect("usage: vx-extract <file.rs>");
    let src = std::fs::read_to_string(&path).expect("read");
    let file = match syn::parse_file(&src) {
        Ok(f) => f,
        Err(e) => {
            eprintln!("vx-extract: parse error in {}: {}", path, e);
            std::process::exit(2);
        }
    };
    let mut cx = Cx {
        src: &src,
        items: Vec::new(),
        edits: Vec::new(),
    };
    cx.do_items(&file.items, "");
    let edits: Vec<Value> = cx
        .edits
        .iter()
        .enumerate()
        .map(|(i, e)| {
            json!({"start": e.start, "end": e.end, "text": e.text, "rule": e.rule, "prio": e.prio, "seq": i,
                   "line": cx.line_of(e.start), "old": cx.text(e.start, e.end)})
        })
        .collect();
    let out = json!({"file": path, "len": src.len(), "items": cx.items, "edits": edits});
    println!("{}", serde_json::to_string(&out).unwrap());
}
