#!/bin/bash
# demo.sh <n2 binary>.  C08: "a record is applied to a step only if every output named in it is currently produced by
# that one step ... changing the output set makes the old record unusable rather than misapplied".
# History: step `a` recorded alone (R2), then the manifest makes the step produce `a b` (record R1 appended later),
# then the manifest goes back to producing only `a` -- with a's inputs, command and output untouched since... R1.
# Step 3 is where the stale two-output record R1 (b no longer produced) is applied to step a.
N2=$1; T=$(mktemp -d); cd $T
echo x > in
m1() { printf 'rule r\n  command = cp in a\nbuild a: r in\n' > build.ninja; }
m2() { printf 'rule r2\n  command = cp in b\nbuild a b: r2 in\n' > build.ninja; }   # declares a as output but leaves it untouched
m1; $N2 >/dev/null                      # record R2(a): a built by `cp in a`
m2; $N2 >/dev/null                      # record R1(a,b) appended later; a itself is not rewritten
m1                                      # back to the first manifest: a, its input and its command are as at R2
out3=$($N2 -d explain 2>&1)
cd /; rm -rf $T
echo "$out3"
if echo "$out3" | grep -q "no work to do"; then echo "PASS"; exit 0; else echo "FAIL: record with outputs {a,b} was applied to the step that now produces only {a}"; exit 1; fi
