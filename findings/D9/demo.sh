#!/bin/bash
# demo.sh <n2 binary>.  C11: "Included files see and extend the including scope, subninja files see a copy of it".
# D9: load::parse_with_parser gives `include` the same treatment as `subninja`: the sub-parser inherits a COPY of the
# scope and nothing is copied back, so a binding made in an included file is invisible after the include statement.
N2=$1; T=$(mktemp -d); cd $T
printf 'cflags = -O2\n' > vars.ninja
printf 'include vars.ninja\nrule cc\n  command = echo "[$cflags]" > $out\nbuild out: cc\n' > build.ninja
$N2 >/dev/null 2>&1; rc=$?
got=$(cat out 2>/dev/null)
cd /; rm -rf $T
echo "rc=$rc out=$got"
if [ "$got" = "[-O2]" ]; then echo PASS; exit 0; else echo "FAIL: a variable bound in an included file expands to nothing in the including file (expected [-O2])"; exit 1; fi
