#!/bin/bash
# demo.sh <n2 binary>.  C18: "A command-line name that occurs nowhere in the (reloaded) manifest is rejected with an
# error and no target is built."
# D14: db::open interns every path named in .n2_db into the graph's file table; run::build resolves command-line names with
# Work::lookup against that table, so a name that only the LOG knows (a step removed from the manifest, or a discovered
# header) is accepted: n2 prints "no work to do" and exits 0 instead of "unknown path requested".
N2=$1; T=$(mktemp -d); cd $T
printf 'rule t\n  command = touch $out\nbuild a: t\nbuild gone: t\n' > build.ninja
$N2 >/dev/null 2>&1                       # builds a and gone; both are recorded in .n2_db
printf 'rule t\n  command = touch $out\nbuild a: t\n' > build.ninja     # the manifest no longer mentions `gone`
out=$($N2 gone 2>&1); rc=$?
out2=$($N2 never-mentioned 2>&1); rc2=$?
cd /; rm -rf $T
echo "n2 gone: rc=$rc: $out"
echo "n2 never-mentioned: rc=$rc2: $out2"
if [ $rc -ne 0 ] && echo "$out" | grep -q "unknown path"; then echo PASS; exit 0; else echo "FAIL: a name that occurs nowhere in the manifest was accepted because the build log knows it"; exit 1; fi
