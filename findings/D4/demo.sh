#!/bin/bash
# demo.sh <n2 binary>.  C12: "any input is either loaded or rejected with a diagnostic" (never a panic).
# D4: Scanner::format_parse_error cuts the offending line at fixed byte offsets (col-20, 40) to fit the screen;
# on a line with multi-byte characters the cut lands inside a character and the str slice panics.
N2=$1; T=$(mktemp -d); cd $T; fail=0
python3 -c "import sys; sys.stdout.write('build a' + 'é'*30 + ' b : : phony\n')" > build.ninja
out=$($N2 2>&1); rc=$?
echo "case 1 (error past column 40 on a line of 2-byte chars): rc=$rc: $(echo "$out" | grep -a -m1 -E 'panicked|n2: error')"
[ $rc -eq 1 ] && echo "$out" | grep -q "n2: error: parse error" || fail=1
python3 -c "import sys; sys.stdout.write('x' + 'é'*30 + '\n')" > build.ninja
out=$($N2 2>&1); rc=$?
echo "case 2 (error at column < 40, line longer than 40 bytes, cut at byte 40 inside a char): rc=$rc: $(echo "$out" | grep -a -m1 -E 'panicked|n2: error')"
[ $rc -eq 1 ] && echo "$out" | grep -q "n2: error: parse error" || fail=1
cd /; rm -rf $T
[ $fail -eq 0 ] && echo PASS || echo "FAIL: formatting a parse error panicked"
exit $fail
