#!/bin/bash
# demo.sh <n2 binary (debug build)>: a binding whose value runs into end of file must give a parse error, not read
# past the buffer.  Pinned tree: `unsafe precondition(s) violated: slice::get_unchecked` abort (UB in release).
N2=$1; T=$(mktemp -d); cd $T; fail=0
printf 'x = abc' > build.ninja
out=$($N2 2>&1); rc=$?
echo "case 1 (no final newline): rc=$rc: $(echo "$out" | head -2 | tr '\n' ' ')"
[ $rc -eq 1 ] && echo "$out" | grep -q "n2: error: parse error" || fail=1
printf 'rule r\n  command = touch ${out\n' > build.ninja
out=$($N2 2>&1); rc=$?
echo "case 2 (unterminated \${ in a rule binding): rc=$rc: $(echo "$out" | head -2 | tr '\n' ' ')"
[ $rc -eq 1 ] && echo "$out" | grep -q "n2: error: parse error" || fail=1
cd /; rm -rf $T
[ $fail -eq 0 ] && echo PASS
exit $fail
