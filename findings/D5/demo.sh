#!/bin/bash
# demo.sh <n2 binary>.  C20: "Status rendering never breaks the build ... over-long messages are cut ... at a character
# boundary.  A rendering problem never aborts or alters the build itself."
# A step whose description is 60 two-byte characters, run on a terminal (pty, width unknown => 80 columns):
# task_message cuts at byte 77 = the middle of a character => String::truncate panics in the display thread while it
# holds the state mutex; the main thread then dies on the poisoned mutex and the build is aborted.
N2=$1; T=$(mktemp -d); cd $T
desc=$(python3 -c "print('é'*60)")
printf 'rule r\n  command = sleep 1 && touch $out\n  description = %s\nbuild out: r\n' "$desc" > build.ninja
script -qec "$N2" /dev/null > log.txt 2>&1 < /dev/null; rc=$?
built=no; [ -e out ] && built=yes
tail -c 600 log.txt | tr '\r' '\n' | grep -a -m3 -E "panicked|not a char boundary|PoisonError" 
cd /; rm -rf $T
echo "rc=$rc out-built=$built"
if [ $rc -eq 0 ] && [ $built = yes ]; then echo PASS; exit 0; else echo "FAIL: rendering a long non-ASCII description aborted the build"; exit 1; fi
