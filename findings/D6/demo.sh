#!/bin/bash
# demo.sh <path-to-n2-binary>: every byte-prefix of a log n2 wrote must load, and the log must stay loadable.
# Fails (exit 1) on the pinned tree (7f3a54b): "n2: error: load .n2_db: failed to fill whole buffer".
N2=$1; T=$(mktemp -d); cd $T
cat > build.ninja <<'EON'
rule cp
  command = cp $in $out
build b: cp a
build c: cp b
build d: cp c
EON
echo hi > a
$N2 >/dev/null || { echo "initial build failed"; exit 2; }
cp .n2_db full.db
LEN=$(stat -c %s full.db)
fail=0
for cut in $(seq 0 $LEN); do
  head -c $cut full.db > .n2_db
  out=$($N2 2>&1); rc=$?
  if [ $rc -ne 0 ]; then echo "prefix of $cut/$LEN bytes: n2 exit $rc: $out"; fail=1; continue; fi
  out2=$($N2 2>&1); rc2=$?
  if [ $rc2 -ne 0 ] || ! echo "$out2" | grep -q "no work to do"; then echo "prefix $cut: second run exit $rc2: $out2"; fail=1; fi
  out3=$($N2 2>&1); rc3=$?
  if [ $rc3 -ne 0 ]; then echo "prefix $cut: third run exit $rc3: $out3"; fail=1; fi
done
cd /; rm -rf $T
[ $fail -eq 0 ] && echo "PASS: all $((LEN+1)) prefixes load and stay loadable"
exit $fail
