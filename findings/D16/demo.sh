#!/bin/bash
# D16 (C12): a manifest that includes itself, directly or through another file.  Before 531f21f: unbounded recursion in
# Loader::parse_with_parser -> "thread 'main' has overflowed its stack", SIGABRT/SIGSEGV.  After: `n2: error: .. include cycle ..`, rc 1.
# usage: demo.sh <n2 binary>
N2=${1:-/repo/target/debug/n2}
D=$(mktemp -d); cd $D
fail=0
printf 'include build.ninja\n' > build.ninja
$N2 > out1.txt 2>&1; rc=$?; tail -1 out1.txt; echo "rc=$rc"
[ $rc -eq 1 ] && grep -q "n2: error:" out1.txt || { echo "FAIL: self-include not rejected with a diagnostic (rc $rc)"; fail=1; }
printf 'subninja b.ninja\n' > build.ninja; printf 'subninja build.ninja\n' > b.ninja
$N2 > out2.txt 2>&1; rc=$?; tail -1 out2.txt; echo "rc=$rc"
[ $rc -eq 1 ] && grep -q "n2: error:" out2.txt || { echo "FAIL: include cycle through b.ninja not rejected with a diagnostic (rc $rc)"; fail=1; }
# the same file included twice in a row is legitimate
printf 'rule t\n  command = touch $out\nv = 1\nsubninja c.ninja\nv = 2\nsubninja c.ninja\n' > build.ninja; printf 'build x$v: t\n' > c.ninja
$N2 > out3.txt 2>&1; rc=$?; tail -1 out3.txt
[ $rc -eq 0 ] && [ -e x1 ] && [ -e x2 ] || { echo "FAIL: repeated (non-nested) subninja rejected"; fail=1; }
cd /; rm -rf $D
[ $fail -eq 0 ] && echo OK
exit $fail
