#!/bin/bash
# demo.sh <n2 binary>.  C09: dependencies reported on the last successful run stay dirtying inputs until the step next
# SUCCEEDS.  `-d ninja_compat -t restat` (adopt mode) runs nothing, yet wiped the remembered list of a dirty step.
N2=$1; T=$(mktemp -d); cd $T
cat > build.ninja <<'EON'
rule cc
  command = cat in.c h.h > out.o && printf 'out.o: in.c h.h\n' > out.d
  depfile = out.d
build out.o: cc in.c
EON
echo a > in.c; echo b > h.h
$N2 >/dev/null || exit 2                       # records discovered dep h.h
sleep 0.05; echo a2 > in.c                     # step is now dirty
$N2 -d ninja_compat -t restat >/dev/null       # adopt: marks up to date without running
sleep 0.05; echo b2 > h.h                      # the remembered header changes
out=$($N2 2>&1)
cd /; rm -rf $T
echo "$out"
if echo "$out" | grep -q "no work to do"; then echo "FAIL: header h.h reported on the last successful run is no longer a dirtying input"; exit 1; else echo PASS; exit 0; fi
