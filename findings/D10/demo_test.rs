// Appended (in a scratch copy) to src/graph.rs: fails on the pinned tree, passes with the fix.
#[cfg(test)]
mod verif_d10 {
    use super::*;
    #[test]
    fn remove_dups_multiplicity_three() {
        let mut outs = BuildOuts {
            ids: vec![1usize, 1, 1, 2].into_iter().map(FileId::from).collect(),
            explicit: 3,
        };
        outs.remove_duplicates();
        assert_eq!(outs.ids, vec![FileId::from(1), FileId::from(2)]);
        // the three explicit positions named one distinct file
        assert_eq!(outs.explicit, 1);
    }
}
