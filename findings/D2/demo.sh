#!/bin/bash
# demo.sh <n2 binary>.  C12: "for every manifest, every target string on the command line and every depfile ... never panics".
# D2: a path that expands to the empty string reached canonicalize_path's assert!(!path.is_empty())   (fixed in ebc0007)
# D3: a path with more than 60 components overflowed its fixed-size component stack: "too many path components" (fixed in 0531b09)
# Both were reachable from a manifest path, a command-line target and (D3) a depfile.  PASS = no panic (rc 0 or 1, never 101/134).
N2=${1:-/repo/target/debug/n2}; T=$(mktemp -d); cd $T; fail=0
chk() { # label rc output
  echo "$1: rc=$2: $(echo "$3" | grep -a -m1 -E 'panicked|too many|error|up to date|no work')"
  { [ $2 -eq 0 ] || [ $2 -eq 1 ]; } && ! echo "$3" | grep -q panicked || fail=1
}
printf 'build $x: phony\n' > build.ninja
out=$($N2 2>&1); chk "D2 manifest (empty expansion)" $? "$out"
p=$(python3 -c "print('/'.join(['d']*61))")
printf 'build %s: phony\n' "$p" > build.ninja; rm -f .n2_db
out=$($N2 2>&1); chk "D3 manifest (61 components)" $? "$out"
printf 'rule t\n  command = touch $out\nbuild x: t\n' > build.ninja; rm -f .n2_db
out=$($N2 "" 2>&1); chk "D2 command line (empty target)" $? "$out"
out=$($N2 "$p" 2>&1); chk "D3 command line (61 components)" $? "$out"
cat > build.ninja <<XEOF
rule cc
  command = touch \$out; echo "\$out: $p/h.h" > \$out.d
  depfile = \$out.d
build y: cc
XEOF
rm -f .n2_db
out=$($N2 y 2>&1); chk "D3 depfile (62 components)" $? "$out"
cd /; rm -rf $T
[ $fail -eq 0 ] && echo PASS || echo "FAIL: a path made n2 panic"
exit $fail
