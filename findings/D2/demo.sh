#!/bin/bash
# demo.sh <n2 binary>.  C12: "for every manifest ... the readers terminate with Ok or an error, never a panic".
# D2: a path that expands to the empty string reaches canonicalize_path's assert!(!path.is_empty()).
# D3: a path with more than 60 components overflows its fixed-size component stack: panic "too many path components".
N2=$1; T=$(mktemp -d); cd $T; fail=0
printf 'build $x: phony\n' > build.ninja
out=$($N2 2>&1); rc=$?
echo "D2 (empty path): rc=$rc: $(echo "$out" | grep -a -m1 -E 'panicked|error')"
[ $rc -eq 1 ] && echo "$out" | grep -q "n2: error" || fail=1
p=$(python3 -c "print('/'.join(['d']*61))")
printf 'build %s: phony\n' "$p" > build.ninja
out=$($N2 2>&1); rc=$?
echo "D3 (61 components): rc=$rc: $(echo "$out" | grep -a -m1 -E 'panicked|too many|error')"
[ $rc -eq 1 ] && echo "$out" | grep -q "n2: error" || fail=1
cd /; rm -rf $T
[ $fail -eq 0 ] && echo PASS || echo "FAIL: a manifest path made n2 panic instead of reporting an error"
exit $fail
