#!/bin/bash
# demo.sh <n2 binary>: C15 "the discovered dependencies are exactly the listed prerequisites of ALL targets".
# A depfile naming the same target twice keeps only the last entry (SmallMap::insert overwrites).
N2=$1; T=$(mktemp -d); cd $T
cat > build.ninja <<'EON'
rule cc
  command = cat in > out && printf 'out: x\nout: y\n' > out.d
  depfile = out.d
build out: cc in
EON
echo 1 > in; echo 1 > x; echo 1 > y
$N2 >/dev/null || exit 2
sleep 0.05; echo 2 > x
out=$($N2 2>&1)
cd /; rm -rf $T
echo "$out"
if echo "$out" | grep -q "no work to do"; then echo "FAIL: prerequisite x of the first 'out:' entry was dropped"; exit 1; else echo PASS; exit 0; fi
