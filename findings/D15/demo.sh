#!/bin/bash
# D15 (C05/C06): `n2 -k 0` with a failing command.  Before 3ebad8d: `*failures_left -= 1` underflows -> panic, rc 101
# (debug build; a release build wraps around to "no limit" by accident).  After: -k 0 means no limit (as in Ninja), rc 1.
# usage: demo.sh <n2 binary>
N2=${1:-/repo/target/debug/n2}
D=$(mktemp -d); cd $D
cat > build.ninja <<'XEOF'
rule fail
  command = false
rule touch
  command = touch $out
build a: fail
build b: touch
XEOF
$N2 -j1 -k0 a b > out.txt 2>&1; rc=$?
cat out.txt | head -5
echo "rc=$rc"
cd /; rm -rf $D
[ $rc -eq 1 ] || { echo "FAIL: expected exit status 1 (a command failed), got $rc"; exit 1; }
echo OK
