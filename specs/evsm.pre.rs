// ---- load unit (C11): SmallMap environments, implicit $in/$out, attribute lookup order ---------------------
pub mod evs {
    use vstd::prelude::*;
    use crate::eval::*;
    use crate::VxAsStr;
    use crate::ev::*;
    verus! {
    // --- SmallMap<K, EvalString<..>> as an environment: the first entry whose key equals the name
    /// the str a key borrows as (K: Borrow<str>); TRUSTED for the two key types n2 uses
    pub uninterp spec fn skey<K>(k: K) -> Seq<char>;
    pub broadcast axiom fn ax_skey_str(k: &str) ensures #[trigger] skey::<&str>(k) == k@;
    pub broadcast axiom fn ax_skey_string(k: String) ensures #[trigger] skey::<String>(k) == k@;
    pub uninterp spec fn qkey<Q: ?Sized>(q: &Q) -> Seq<char>;
    pub broadcast axiom fn ax_qkey_str(q: &str) ensures #[trigger] qkey::<str>(q) == q@;
    pub open spec fn sm_idx<K, V>(s: Seq<(K, V)>, name: Seq<char>) -> int
        decreases s.len()
    { if s.len() == 0 { -1 } else if skey(s[0].0) == name { 0 } else { let r = sm_idx(s.drop_first(), name); if r < 0 { -1 } else { r + 1 } } }
    pub open spec fn sm_binds<K, T: VxAsStr>(m: crate::smallmap::SmallMap<K, EvalString<T>>, var: Seq<char>) -> Option<Seq<Part>> {
        let i = sm_idx(m.0@, var);
        if i >= 0 { Some(parts_view(m.0@[i].1.0@)) } else { None }
    }
    pub proof fn lemma_sm_idx<K, V>(s: Seq<(K, V)>, name: Seq<char>)
        ensures -1 <= sm_idx(s, name) < s.len()
        decreases s.len()
    { if s.len() > 0 && skey(s[0].0) != name { lemma_sm_idx(s.drop_first(), name); } }
    /// TRUSTED: definition of `binds` / env_ok for the two SmallMap environments
    pub broadcast axiom fn ax_binds_sm_string<K>(m: &crate::smallmap::SmallMap<K, EvalString<String>>, var: Seq<char>)
        ensures #[trigger] binds(m, var) == sm_binds(*m, var);
    pub broadcast axiom fn ax_binds_sm_str<'a, K>(m: &crate::smallmap::SmallMap<K, EvalString<&'a str>>, var: Seq<char>)
        ensures #[trigger] binds(m, var) == sm_binds(*m, var);
    pub broadcast axiom fn ax_env_ok_sm_string<K>(m: &crate::smallmap::SmallMap<K, EvalString<String>>) ensures #[trigger] env_ok(m);
    pub broadcast axiom fn ax_env_ok_sm_str<'a, K>(m: &crate::smallmap::SmallMap<K, EvalString<&'a str>>) ensures #[trigger] env_ok(m);

    // --- $in / $out / $in_newline / $out_newline
    use crate::graph::{Graph, FileId};
    use crate::gs;
    use crate::vx_keys::{vx_ix, ix};
    /// the code's join: a separator is put in front of a name only if something was written before
    pub open spec fn join(g: Graph, ids: Seq<FileId>, sep: char) -> Seq<char>
        decreases ids.len()
    {
        if ids.len() == 0 { Seq::<char>::empty() } else {
            let p = join(g, ids.drop_last(), sep);
            (if p.len() > 0 { p.push(sep) } else { p }) + gs::files(g)[ix(ids.last())].name@
        }
    }
    pub open spec fn implicit_binds(g: Graph, b: crate::graph::Build, var: Seq<char>) -> Option<Seq<Part>> {
        if var == "in"@ { Some(seq![Part::Lit(join(g, gs::explicit_ins(b), ' '))]) }
        else if var == "in_newline"@ { Some(seq![Part::Lit(join(g, gs::explicit_ins(b), '\n'))]) }
        else if var == "out"@ { Some(seq![Part::Lit(join(g, gs::explicit_outs(b), ' '))]) }
        else if var == "out_newline"@ { Some(seq![Part::Lit(join(g, gs::explicit_outs(b), '\n'))]) }
        else { None }
    }
    pub open spec fn implicit_ok(g: Graph, b: crate::graph::Build) -> bool {
        gs::wf_build(b) && gs::ids_ok(g, b.ins.ids@) && gs::ids_ok(g, b.outs.ids@)
    }
    pub open spec fn opt_view(o: Option<String>) -> Option<Seq<char>> { match o { Some(s) => Some(s@), None => None } }
    /// TRUSTED (dynamic dispatch): calling get_var through `&dyn Env` runs the implementation of the concrete type;
    /// stated per concrete environment type (a generic statement over `E: Env` is rejected by Verus' cycle check)
    pub broadcast axiom fn ax_dyn_bv(e: &crate::parse::VarList, var: Seq<char>)
        ensures #[trigger] binds::<dyn Env>(dynenv(e), var) == binds(e, var);
    pub broadcast axiom fn ax_dyn_bv_ok(e: &crate::parse::VarList) ensures #[trigger] env_ok::<dyn Env>(dynenv(e)) == env_ok(e);
    pub broadcast group g_dyn { crate::ev::ax_dyn_vars, crate::ev::ax_dyn_vars_ok, ax_dyn_bv, ax_dyn_bv_ok }
    pub broadcast group g_env { ax_env_ok_vars, ax_skey_str, ax_skey_string, ax_qkey_str,
        ax_binds_sm_string, ax_binds_sm_str, ax_env_ok_sm_string, ax_env_ok_sm_str,
        ax_binds_vars, ax_cow_borrowed, ax_cow_owned, lemma_parts_view_one }
    }
}
