// ---- perr unit (C12): lines of a buffer ------------------------------------------------------------------
pub mod pe {
    use vstd::prelude::*;
    verus! {
    /// total length of the first k lines
    pub open spec fn lens(ls: Seq<&[u8]>, k: int) -> int decreases k {
        if k <= 0 { 0 } else { lens(ls, k - 1) + ls[k - 1]@.len() }
    }
    pub proof fn lemma_lens_mono(ls: Seq<&[u8]>, a: int, b: int)
        requires 0 <= a <= b
        ensures 0 <= lens(ls, a) <= lens(ls, b)
        decreases b
    {
        if a < b { lemma_lens_mono(ls, a, b - 1); } else if a > 0 { lemma_lens_mono(ls, a - 1, a - 1); lemma_lens_mono(ls, 0, a - 1); }
    }
    }
}
verus! {
/// R9 wrapper for `buf.split(|&c| c == b'\n')` (collected): TRUSTED contract = the std documentation of slice::split:
/// at least one piece, and the pieces joined by one separator each make up the buffer (so lengths add up)
#[verifier::external_body]
pub fn vx_split_nl<'a>(buf: &'a [u8]) -> (r: Vec<&'a [u8]>)
    ensures r@.len() >= 1, crate::pe::lens(r@, r@.len() as int) + (r@.len() - 1) == buf@.len(),
{ buf.split(|&c| c == b'\n').collect() }
}

// ---- task unit (C09): /showIncludes extraction -----------------------------------------------------------
pub mod si {
    use vstd::prelude::*;
    verus! {
    /// the pieces of b between newlines (what slice::split(|c| c == b'\n') yields)
    pub open spec fn lines_of(b: Seq<u8>) -> Seq<Seq<u8>> decreases b.len() {
        if !b.contains(10u8) { seq![b] } else {
            let i = b.index_of(10u8);
            if 0 <= i < b.len() { seq![b.take(i)] + lines_of(b.skip(i + 1)) } else { seq![b] }
        }
    }
    pub open spec fn prefix() -> Seq<u8> { crate::vx_utf8("Note: including file: "@) }
    /// a line of the form `Note: including file: <path>`
    pub open spec fn is_note(l: Seq<u8>) -> bool { l.len() >= prefix().len() && l.take(prefix().len() as int) == prefix() }
    /// what is shown to the user: the other lines, in order, joined by newlines (the code's rule: a newline goes in
    /// front of a line only if something was shown before)
    pub open spec fn shown(ls: Seq<Seq<u8>>, k: int) -> Seq<u8> decreases k {
        if k <= 0 { Seq::<u8>::empty() } else {
            let p = shown(ls, k - 1);
            if is_note(ls[k - 1]) { p } else { (if p.len() > 0 { p.push(10u8) } else { p }) + ls[k - 1] }
        }
    }
    /// number of note lines among the first k
    pub open spec fn notes(ls: Seq<Seq<u8>>, k: int) -> int decreases k {
        if k <= 0 { 0 } else { notes(ls, k - 1) + (if is_note(ls[k - 1]) { 1int } else { 0int }) }
    }
    }
}
verus! {
/// R9 wrappers (trusted: std documentation of slice::split / strip_prefix / ends_with / to_vec)
#[verifier::external_body]
pub fn vx_split_lines<'a>(buf: &'a [u8]) -> (r: Vec<&'a [u8]>)
    ensures r@.len() == crate::si::lines_of(buf@).len(), forall|i: int| 0 <= i < r@.len() ==> (#[trigger] r@[i])@ == crate::si::lines_of(buf@)[i],
{ buf.split(|&c| c == b'\n').collect() }
#[verifier::external_body]
pub fn vx_strip_prefix<'a>(l: &'a [u8], p: &[u8]) -> (r: Option<&'a [u8]>)
    ensures (match r { Some(rest) => l@.len() >= p@.len() && l@.take(p@.len() as int) == p@ && rest@ == l@.skip(p@.len() as int),
                       None => !(l@.len() >= p@.len() && l@.take(p@.len() as int) == p@) })
{ l.strip_prefix(p) }
#[verifier::external_body]
pub fn vx_ends_with_byte(l: &[u8], b: u8) -> (r: bool)
    ensures r == (l@.len() > 0 && l@.last() == b)
{ l.ends_with(&[b]) }
#[verifier::external_body]
pub fn vx_to_vec(l: &[u8]) -> (r: Vec<u8>) ensures r@ == l@ { l.to_vec() }
}
