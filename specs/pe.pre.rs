// ---- perr unit (C12): lines of a buffer ------------------------------------------------------------------
pub mod pe {
    use vstd::prelude::*;
    verus! {
    /// total length of the first k lines
    pub open spec fn lens(ls: Seq<&[u8]>, k: int) -> int decreases k {
        if k <= 0 { 0 } else { lens(ls, k - 1) + ls[k - 1]@.len() }
    }
    pub proof fn lemma_lens_mono(ls: Seq<&[u8]>, a: int, b: int)
        requires 0 <= a <= b
        ensures 0 <= lens(ls, a) <= lens(ls, b)
        decreases b
    {
        if a < b { lemma_lens_mono(ls, a, b - 1); } else if a > 0 { lemma_lens_mono(ls, a - 1, a - 1); lemma_lens_mono(ls, 0, a - 1); }
    }
    }
}
verus! {
/// R9 wrapper for `buf.split(|&c| c == b'\n')` (collected): TRUSTED contract = the std documentation of slice::split:
/// at least one piece, and the pieces joined by one separator each make up the buffer (so lengths add up)
#[verifier::external_body]
pub fn vx_split_nl<'a>(buf: &'a [u8]) -> (r: Vec<&'a [u8]>)
    ensures r@.len() >= 1, crate::pe::lens(r@, r@.len() as int) + (r@.len() - 1) == buf@.len(),
{ buf.split(|&c| c == b'\n').collect() }
}
