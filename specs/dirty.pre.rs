// ---- dirty unit: trusted std specs -----------------------------------------------------------------
// R9 wrappers around the hasher calls of hash.rs: the body is the original call, the contract says what is fed.
verus! {
pub trait VxHash {
    spec fn vx_fed(&self) -> crate::hs::Fed;
    fn vx_hash(&self, h: &mut std::collections::hash_map::DefaultHasher)
        ensures crate::hs::hfed(*final(h)) == crate::hs::hfed(*old(h)).push(self.vx_fed());
}
impl VxHash for str {
    open spec fn vx_fed(&self) -> crate::hs::Fed { crate::hs::Fed::Str(self@) }
    #[verifier::external_body] fn vx_hash(&self, h: &mut std::collections::hash_map::DefaultHasher) { std::hash::Hash::hash(self, h) }
}
impl VxHash for std::time::SystemTime {
    open spec fn vx_fed(&self) -> crate::hs::Fed { crate::hs::Fed::Time(*self) }
    #[verifier::external_body] fn vx_hash(&self, h: &mut std::collections::hash_map::DefaultHasher) { std::hash::Hash::hash(self, h) }
}
impl VxHash for crate::graph::RspFile {
    open spec fn vx_fed(&self) -> crate::hs::Fed { crate::hs::Fed::Rsp(*self) }
    #[verifier::external_body] fn vx_hash(&self, h: &mut std::collections::hash_map::DefaultHasher) { std::hash::Hash::hash(self, h) }
}
impl VxHash for crate::graph::FileId {
    open spec fn vx_fed(&self) -> crate::hs::Fed { crate::hs::Fed::Num(self.0 as int) }
    #[verifier::external_body] fn vx_hash(&self, h: &mut std::collections::hash_map::DefaultHasher) { std::hash::Hash::hash(self, h) }
}
impl VxHash for u32 {
    open spec fn vx_fed(&self) -> crate::hs::Fed { crate::hs::Fed::Num(*self as int) }
    #[verifier::external_body] fn vx_hash(&self, h: &mut std::collections::hash_map::DefaultHasher) { std::hash::Hash::hash(self, h) }
}
impl VxHash for usize {
    open spec fn vx_fed(&self) -> crate::hs::Fed { crate::hs::Fed::Num(*self as int) }
    #[verifier::external_body] fn vx_hash(&self, h: &mut std::collections::hash_map::DefaultHasher) { std::hash::Hash::hash(self, h) }
}
pub trait VxHasher {
    spec fn vx_hfed(&self) -> Seq<crate::hs::Fed>;
    fn vx_write_u8(&mut self, b: u8) ensures final(self).vx_hfed() == old(self).vx_hfed().push(crate::hs::Fed::Sep);
    fn vx_finish(&self) -> (r: u64) ensures r == crate::hs::hfinish(self.vx_hfed());
}
impl VxHasher for std::collections::hash_map::DefaultHasher {
    open spec fn vx_hfed(&self) -> Seq<crate::hs::Fed> { crate::hs::hfed(*self) }
    #[verifier::external_body] fn vx_write_u8(&mut self, b: u8) { std::hash::Hasher::write_u8(self, b) }
    #[verifier::external_body] fn vx_finish(&self) -> (r: u64) { std::hash::Hasher::finish(self) }
}
}
// R10: derive(Hash) on RspFile was dropped; give it back (unverified) for the wrapper above
#[verifier::external]
impl std::hash::Hash for crate::graph::RspFile {
    fn hash<H: std::hash::Hasher>(&self, state: &mut H) { self.path.hash(state); self.content.hash(state); }
}

verus! {
/// R9 wrapper for `String::starts_with(char)` (result unconstrained: no property needs it)
pub trait VxStrPredS { fn vx_starts_with_char(&self, c: char) -> (r: bool); }
impl VxStrPredS for String {
    #[verifier::external_body] fn vx_starts_with_char(&self, c: char) -> (r: bool) { self.starts_with(c) }
}
}
