// ---- graph spec vocabulary (DESIGN §4) ---------------------------------------------------
pub mod gs {
    use vstd::prelude::*;
    use crate::graph::*;
    use crate::vx_keys::{vx_ix, ix};
    verus! {
    broadcast use crate::vx_keys::group_keys;

    // --- the slices of Build.ins / Build.outs, taken from the property statements:
    //     explicit, implicit, order-only, validation in that order.
    pub open spec fn n_explicit(b: Build) -> int { b.ins.explicit as int }
    pub open spec fn n_dirtying(b: Build) -> int { b.ins.explicit + b.ins.implicit }
    pub open spec fn n_ordering(b: Build) -> int { b.ins.explicit + b.ins.implicit + b.ins.order_only }
    pub open spec fn wf_build(b: Build) -> bool {
        n_ordering(b) <= b.ins.ids@.len() <= usize::MAX && b.outs.explicit <= b.outs.ids@.len()
    }
    pub open spec fn explicit_ins(b: Build) -> Seq<FileId> { b.ins.ids@.subrange(0, n_explicit(b)) }
    pub open spec fn dirtying_ins(b: Build) -> Seq<FileId> { b.ins.ids@.subrange(0, n_dirtying(b)) }
    pub open spec fn ordering_ins(b: Build) -> Seq<FileId> { b.ins.ids@.subrange(0, n_ordering(b)) }
    pub open spec fn validation_ins(b: Build) -> Seq<FileId> { b.ins.ids@.subrange(n_ordering(b), b.ins.ids@.len() as int) }
    pub open spec fn explicit_outs(b: Build) -> Seq<FileId> { b.outs.ids@.subrange(0, b.outs.explicit as int) }
    pub open spec fn outs(b: Build) -> Seq<FileId> { b.outs.ids@ }

    // --- de-duplication keeping first occurrences, in order
    pub open spec fn dedup<T>(s: Seq<T>) -> Seq<T>
        decreases s.len()
    {
        if s.len() == 0 { Seq::empty() } else {
            let d = dedup(s.drop_last());
            if s.drop_last().contains(s.last()) { d } else { d.push(s.last()) }
        }
    }
    pub proof fn lemma_dedup_contains<T>(s: Seq<T>, x: T)
        ensures dedup(s).contains(x) == s.contains(x)
        decreases s.len()
    {
        if s.len() == 0 {
        } else {
            let t = s.drop_last();
            lemma_dedup_contains(t, x);
            lemma_dedup_contains(t, s.last());
            assert(s =~= t.push(s.last()));
            if s.contains(x) {
                let i = choose|i: int| 0 <= i < s.len() && s[i] == x;
                if i < t.len() { assert(t[i] == x); assert(t.contains(x)); }
            }
            if dedup(s).contains(x) {
                if t.contains(s.last()) {
                } else {
                    let d = dedup(t);
                    let i = choose|i: int| 0 <= i < d.push(s.last()).len() && d.push(s.last())[i] == x;
                    if i < d.len() { assert(d[i] == x); assert(d.contains(x)); }
                    else { assert(x == s.last()); assert(s[s.len() - 1] == x); }
                }
            }
            if t.contains(x) {
                let i = choose|i: int| 0 <= i < t.len() && t[i] == x;
                assert(s[i] == x);
                if !t.contains(s.last()) {
                    let d = dedup(t);
                    let j = choose|j: int| 0 <= j < d.len() && d[j] == x;
                    assert(d.push(s.last())[j] == x);
                }
            }
            if x == s.last() && !t.contains(s.last()) {
                let d = dedup(t);
                assert(d.push(s.last())[d.len() as int] == x);
            }
        }
    }
    pub proof fn lemma_dedup_len<T>(s: Seq<T>)
        ensures dedup(s).len() <= s.len()
        decreases s.len()
    {
        if s.len() > 0 { lemma_dedup_len(s.drop_last()); }
    }
    pub proof fn lemma_dedup_no_dup<T>(s: Seq<T>)
        ensures forall|i: int, j: int| 0 <= i < j < dedup(s).len() ==> dedup(s)[i] != dedup(s)[j]
        decreases s.len()
    {
        if s.len() > 0 {
            let t = s.drop_last();
            lemma_dedup_no_dup(t);
            if !t.contains(s.last()) {
                let d = dedup(t);
                assert forall|i: int, j: int| 0 <= i < j < d.push(s.last()).len() implies d.push(s.last())[i] != d.push(s.last())[j] by {
                    if j == d.len() {
                        lemma_dedup_contains(t, s.last());
                        if d[i] == s.last() { assert(d.contains(s.last())); }
                    }
                }
            }
        }
    }
    /// dedup of a prefix is a prefix of the dedup
    pub proof fn lemma_dedup_prefix<T>(s: Seq<T>, k: int)
        requires 0 <= k <= s.len()
        ensures dedup(s.subrange(0, k)).len() <= dedup(s).len(),
                dedup(s.subrange(0, k)) =~= dedup(s).subrange(0, dedup(s.subrange(0, k)).len() as int)
        decreases s.len() - k
    {
        if k == s.len() {
            assert(s.subrange(0, k) =~= s);
        } else {
            lemma_dedup_prefix(s, k + 1);
            let a = s.subrange(0, k + 1);
            assert(a.drop_last() =~= s.subrange(0, k));
        }
    }

    pub open spec fn min(a: int, b: int) -> int { if a < b { a } else { b } }
    /// explicit-output count after the first i list positions have been processed
    pub open spec fn expl_after<T>(s: Seq<T>, e: int, i: int) -> int {
        e - (min(i, e) - dedup(s.subrange(0, min(i, e))).len())
    }
    pub proof fn lemma_expl_step<T>(s: Seq<T>, e: int, i: int)
        requires 0 <= e <= s.len(), 0 <= i < s.len()
        ensures
            s.subrange(0, i + 1).drop_last() =~= s.subrange(0, i),
            s.subrange(0, i + 1).last() == s[i],
            i < e && s.subrange(0, i).contains(s[i]) ==> expl_after(s, e, i + 1) == expl_after(s, e, i) - 1 && expl_after(s, e, i) >= 1,
            i < e && !s.subrange(0, i).contains(s[i]) ==> expl_after(s, e, i + 1) == expl_after(s, e, i),
            i >= e ==> expl_after(s, e, i + 1) == expl_after(s, e, i),
            dedup(s.subrange(0, i + 1)) == if s.subrange(0, i).contains(s[i]) { dedup(s.subrange(0, i)) } else { dedup(s.subrange(0, i)).push(s[i]) },
            expl_after(s, e, 0) == e,
    {
        assert(s.subrange(0, i + 1).drop_last() =~= s.subrange(0, i));
        assert(s.subrange(0, 0) =~= Seq::<T>::empty());
        if i < e && s.subrange(0, i).contains(s[i]) {
            lemma_dedup_contains(s.subrange(0, i), s[i]);
            let d = dedup(s.subrange(0, i));
            let k = choose|k: int| 0 <= k < d.len() && d[k] == s[i];
            assert(d.len() >= 1);
        }
        lemma_dedup_len(s.subrange(0, min(i, e)));
    }

    // --- graph well-formedness (unique producer: C14)
    pub open spec fn files(g: Graph) -> Seq<File> { g.files.by_id.vec@ }
    pub open spec fn builds(g: Graph) -> Seq<Build> { g.builds.vec@ }
    pub open spec fn fid_ok(g: Graph, f: FileId) -> bool { ix(f) < files(g).len() }
    pub open spec fn ids_ok(g: Graph, s: Seq<FileId>) -> bool { forall|j: int| 0 <= j < s.len() ==> fid_ok(g, #[trigger] s[j]) }
    pub open spec fn build_ids_ok(g: Graph, b: Build) -> bool {
        ids_ok(g, b.ins.ids@) && ids_ok(g, b.outs.ids@) && ids_ok(g, b.discovered_ins@)
    }
    pub open spec fn no_dup<T>(s: Seq<T>) -> bool { forall|i: int, j: int| 0 <= i < j < s.len() ==> s[i] != s[j] }
    /// every output of every build names that build as its (only) producer, and every
    /// producer link points at a build that lists the file
    /// every recorded dependent is a valid build id
    pub open spec fn deps_le(fs: Seq<File>, n: int) -> bool {
        forall|f: int, k: int| 0 <= f < fs.len() && 0 <= k < fs[f].dependents@.len() ==> ix(#[trigger] fs[f].dependents@[k]) < n
    }
    /// C06(a): every build is listed among the dependents of each of its ordering inputs (ready_dependents finds the builds
    /// that wait for a finished one through these lists)
    pub open spec fn deps_complete(g: Graph) -> bool {
        forall|b: int, j: int| 0 <= b < builds(g).len() && 0 <= j < ordering_ins(builds(g)[b]).len() ==>
            files(g)[ix(#[trigger] ordering_ins(builds(g)[b])[j])].dependents@.contains(crate::graph::BuildId(b as u32))
    }
    /// dependents lists only grow
    pub open spec fn deps_mono(f0: Seq<File>, f1: Seq<File>) -> bool {
        f0.len() == f1.len() && forall|f: int, k: int| 0 <= f < f0.len() && 0 <= k < f0[f].dependents@.len() ==> f1[f].dependents@.contains(#[trigger] f0[f].dependents@[k])
    }
    /// the first k inputs have the new build among their dependents
    pub open spec fn deps_pushed(fs: Seq<File>, ins: Seq<FileId>, k: int, nid: crate::graph::BuildId) -> bool {
        forall|j: int| 0 <= j < k ==> ix(#[trigger] ins[j]) < fs.len() && fs[ix(ins[j])].dependents@.contains(nid)
    }
    /// pushing nid onto the dependents of ins[k] (and nothing else changing in any dependents list)
    pub proof fn lemma_deps_push(f_old: Seq<File>, f0: Seq<File>, f1: Seq<File>, ins: Seq<FileId>, k: int, nid: crate::graph::BuildId)
        requires deps_mono(f_old, f0), deps_pushed(f0, ins, k, nid), 0 <= k < ins.len(), ix(ins[k]) < f0.len(), f1.len() == f0.len(),
            f1[ix(ins[k])].dependents@ == f0[ix(ins[k])].dependents@.push(nid),
            forall|f: int| 0 <= f < f0.len() && f != ix(ins[k]) ==> (#[trigger] f1[f]).dependents@ == f0[f].dependents@,
        ensures deps_mono(f_old, f1), deps_pushed(f1, ins, k + 1, nid)
    {
        let x = ix(ins[k]) as int;
        assert forall|f: int, i: int| 0 <= f < f_old.len() && 0 <= i < f_old[f].dependents@.len() implies f1[f].dependents@.contains(#[trigger] f_old[f].dependents@[i]) by {
            let d = f_old[f].dependents@[i];
            assert(f0[f].dependents@.contains(d));
            let m = choose|m: int| 0 <= m < f0[f].dependents@.len() && f0[f].dependents@[m] == d;
            if f == x { assert(f1[f].dependents@[m] == d); } else { assert(f1[f].dependents@[m] == d); }
        }
        assert forall|j: int| 0 <= j < k + 1 implies ix(#[trigger] ins[j]) < f1.len() && f1[ix(ins[j])].dependents@.contains(nid) by {
            let y = ix(ins[j]) as int;
            if y == x { assert(f1[y].dependents@[f0[y].dependents@.len() as int] == nid); }
            else {
                let m = choose|m: int| 0 <= m < f0[y].dependents@.len() && f0[y].dependents@[m] == nid;
                assert(f1[y].dependents@[m] == nid);
            }
        }
    }
    /// a change that leaves every dependents list alone
    pub proof fn lemma_deps_same(f_old: Seq<File>, f0: Seq<File>, f1: Seq<File>, ins: Seq<FileId>, nid: crate::graph::BuildId)
        requires deps_mono(f_old, f0), deps_pushed(f0, ins, ins.len() as int, nid), f1.len() == f0.len(),
            forall|f: int| 0 <= f < f0.len() ==> (#[trigger] f1[f]).dependents@ == f0[f].dependents@,
        ensures deps_mono(f_old, f1), deps_pushed(f1, ins, ins.len() as int, nid)
    {
        assert forall|f: int, i: int| 0 <= f < f_old.len() && 0 <= i < f_old[f].dependents@.len() implies f1[f].dependents@.contains(#[trigger] f_old[f].dependents@[i]) by {
            assert(f0[f].dependents@.contains(f_old[f].dependents@[i]));
        }
        assert forall|j: int| 0 <= j < ins.len() implies ix(#[trigger] ins[j]) < f1.len() && f1[ix(ins[j])].dependents@.contains(nid) by {
            assert(f0[ix(ins[j])].dependents@.contains(nid));
        }
    }
    pub proof fn lemma_deps_complete_add(g0: Graph, g1: Graph, nb: Build)
        requires deps_complete(g0), wf_graph(g0), builds(g1).len() == builds(g0).len() + 1, builds(g1).len() < 0x1_0000_0000,
            builds(g1).subrange(0, builds(g0).len() as int) == builds(g0), builds(g1).last().ins == nb.ins, wf_build(nb),
            deps_mono(files(g0), files(g1)), deps_pushed(files(g1), nb.ins.ids@, nb.ins.ids@.len() as int, crate::graph::BuildId(builds(g0).len() as u32)),
        ensures deps_complete(g1)
    {
        let n = builds(g0).len() as int;
        assert forall|b: int, j: int| 0 <= b < builds(g1).len() && 0 <= j < ordering_ins(builds(g1)[b]).len() implies
            files(g1)[ix(#[trigger] ordering_ins(builds(g1)[b])[j])].dependents@.contains(crate::graph::BuildId(b as u32)) by {
            if b < n {
                assert(builds(g1)[b] == builds(g1).subrange(0, n)[b]);
                assert(builds(g1)[b] == builds(g0)[b]);
                let f = ordering_ins(builds(g0)[b])[j];
                assert(wf_build(builds(g0)[b]) && build_ids_ok(g0, builds(g0)[b]));
                assert(f == builds(g0)[b].ins.ids@[j]);
                assert(fid_ok(g0, f));
                let dl = files(g0)[ix(f)].dependents@;
                let k = choose|k: int| 0 <= k < dl.len() && dl[k] == crate::graph::BuildId(b as u32);
                assert(files(g1)[ix(f)].dependents@.contains(dl[k]));
            } else {
                assert(builds(g1)[b] == builds(g1).last());
                assert(ordering_ins(builds(g1)[b])[j] == nb.ins.ids@[j]);
            }
        }
    }
    pub open spec fn wf_graph(g: Graph) -> bool {
        &&& deps_le(files(g), builds(g).len() as int)
        &&& builds(g).len() < 0x1_0000_0000
        &&& files(g).len() < 0x1_0000_0000
        &&& forall|b: int| 0 <= b < builds(g).len() ==> wf_build(#[trigger] builds(g)[b]) && build_ids_ok(g, builds(g)[b]) && no_dup(builds(g)[b].outs.ids@)
        &&& forall|b: int, j: int| 0 <= b < builds(g).len() && 0 <= j < builds(g)[b].outs.ids@.len() ==>
                files(g)[ix(#[trigger] builds(g)[b].outs.ids@[j])].input == Some(BuildId(b as u32))
        &&& forall|f: int| 0 <= f < files(g).len() ==> match (#[trigger] files(g)[f]).input {
                Some(p) => ix(p) < builds(g).len() && builds(g)[ix(p)].outs.ids@.contains(FileId(f as u32)),
                None => true }
    }

    // --- Graph::add_build vocabulary
    /// files after the outputs in `done` have been claimed by build `nid`
    pub open spec fn outs_marked(of: Seq<File>, nf: Seq<File>, nid: BuildId, done: Seq<FileId>) -> bool {
        &&& nf.len() == of.len()
        &&& forall|f: int| 0 <= f < nf.len() ==> (#[trigger] nf[f]).name == of[f].name
        &&& forall|f: int| 0 <= f < nf.len() ==> (#[trigger] nf[f]).input ==
                (if of[f].input is None && done.contains(FileId(f as u32)) { Some(nid) } else { of[f].input })
    }
    pub open spec fn all_unproduced(of: Seq<File>, s: Seq<FileId>) -> bool {
        forall|j: int| 0 <= j < s.len() ==> ix(#[trigger] s[j]) < of.len() && of[ix(s[j])].input is None
    }
    /// some listed output is already produced by an earlier statement
    pub open spec fn conflict(of: Seq<File>, s: Seq<FileId>) -> bool {
        exists|j: int| 0 <= j < s.len() && ix(#[trigger] s[j]) < of.len() && of[ix(s[j])].input is Some
    }
    pub open spec fn files_ext(f0: Seq<File>, f1: Seq<File>) -> bool {
        f0.len() <= f1.len() && (forall|f: int| 0 <= f < f0.len() ==> #[trigger] f1[f] == f0[f])
        && (forall|f: int| f0.len() <= f < f1.len() ==> (#[trigger] f1[f]).input is None && f1[f].dependents@.len() == 0)
    }
    pub open spec fn same_except_discovered(a: Build, b: Build) -> bool {
        a.ins == b.ins && a.outs == b.outs && a.cmdline == b.cmdline && a.rspfile == b.rspfile
        && a.pool == b.pool && a.depfile == b.depfile && a.desc == b.desc && a.location == b.location
        && a.parse_showincludes == b.parse_showincludes && a.hide_success == b.hide_success && a.hide_progress == b.hide_progress
    }
    pub open spec fn same_except_outs(a: Build, b: Build) -> bool {
        a.ins == b.ins && a.discovered_ins == b.discovered_ins && a.cmdline == b.cmdline && a.rspfile == b.rspfile
        && a.pool == b.pool && a.depfile == b.depfile && a.desc == b.desc && a.location == b.location
        && a.parse_showincludes == b.parse_showincludes && a.hide_success == b.hide_success && a.hide_progress == b.hide_progress
    }

    pub proof fn lemma_no_dup_push<T>(s: Seq<T>, x: T)
        ensures no_dup(s.push(x)) == (no_dup(s) && !s.contains(x))
    {
        let t = s.push(x);
        if no_dup(s) && !s.contains(x) {
            assert forall|i: int, j: int| 0 <= i < j < t.len() implies t[i] != t[j] by {
                if j == s.len() { if t[i] == x { assert(s[i] == x); } }
            }
        }
        if no_dup(t) {
            assert forall|i: int, j: int| 0 <= i < j < s.len() implies s[i] != s[j] by {
                assert(t[i] == s[i] && t[j] == s[j]);
            }
            if s.contains(x) {
                let i = choose|i: int| 0 <= i < s.len() && s[i] == x;
                assert(t[i] == t[s.len() as int]);
            }
        }
    }
    pub proof fn lemma_dedup_no_dup_id<T>(s: Seq<T>)
        requires no_dup(s)
        ensures dedup(s) == s
        decreases s.len()
    {
        if s.len() > 0 {
            let t = s.drop_last();
            assert(s =~= t.push(s.last()));
            lemma_no_dup_push(t, s.last());
            lemma_dedup_no_dup_id(t);
        } else {
            assert(s =~= Seq::<T>::empty());
        }
    }
    /// one iteration of the outputs loop of add_build
    pub proof fn lemma_mark_step(of: Seq<File>, nf0: Seq<File>, nf1: Seq<File>, nid: BuildId, outs: Seq<FileId>, k: int)
        requires
            0 <= k < outs.len(), of.len() < 0x1_0000_0000,
            outs_marked(of, nf0, nid, outs.subrange(0, k)),
            all_unproduced(of, outs.subrange(0, k)),
            ix(outs[k]) < of.len(),
            of[ix(outs[k])].input is None,
            nf1.len() == nf0.len(),
            forall|f: int| 0 <= f < nf0.len() && f != ix(outs[k]) ==> nf1[f] == nf0[f],
            nf1[ix(outs[k])].name == nf0[ix(outs[k])].name,
            nf1[ix(outs[k])].input == Some(nid),
        ensures
            outs_marked(of, nf1, nid, outs.subrange(0, k + 1)),
            all_unproduced(of, outs.subrange(0, k + 1)),
            outs.subrange(0, k + 1) =~= outs.subrange(0, k).push(outs[k]),
    {
        broadcast use crate::vx_keys::group_keys;
        let d0 = outs.subrange(0, k);
        let d1 = outs.subrange(0, k + 1);
        assert(d1 =~= d0.push(outs[k]));
        assert forall|f: int| 0 <= f < nf1.len() implies (#[trigger] nf1[f]).input ==
                (if of[f].input is None && d1.contains(FileId(f as u32)) { Some(nid) } else { of[f].input }) by {
            let fid = FileId(f as u32);
            assert(ix(fid) == f);
            if d1.contains(fid) {
                let j = choose|j: int| 0 <= j < d1.len() && d1[j] == fid;
                if j < k { assert(d0[j] == fid); assert(d0.contains(fid)); } else { assert(fid == outs[k]); }
            }
            if d0.contains(fid) {
                let j = choose|j: int| 0 <= j < d0.len() && d0[j] == fid;
                assert(d1[j] == fid);
            }
            if f == ix(outs[k]) {
                assert(outs[k].0 as usize as int == f);
                assert(fid == outs[k]);
                assert(d1[k] == fid);
            } else {
                assert(nf1[f] == nf0[f]);
                assert(fid != outs[k]);
            }
        }
        assert forall|j: int| 0 <= j < d1.len() implies ix(#[trigger] d1[j]) < of.len() && of[ix(d1[j])].input is None by {
            if j < k { assert(d0[j] == d1[j]); }
        }
    }
    /// final step of add_build: the graph with the new build pushed is well formed
    pub proof fn lemma_add_build_wf(g0: Graph, g1: Graph, b: Build)
        requires
            wf_graph(g0), builds(g0).len() + 1 < 0x1_0000_0000,
            builds(g1) == builds(g0).push(b),
            wf_build(b), ids_ok(g0, b.ins.ids@), ids_ok(g0, b.discovered_ins@),
            no_dup(b.outs.ids@),
            outs_marked(files(g0), files(g1), BuildId(builds(g0).len() as u32), b.outs.ids@),
            all_unproduced(files(g0), b.outs.ids@),
            deps_le(files(g1), (builds(g0).len() + 1) as int),
        ensures wf_graph(g1),
    {
        broadcast use crate::vx_keys::group_keys;
        let n = builds(g0).len() as int;
        let nid = BuildId(n as u32);
        assert(ix(nid) == n);
        assert forall|bi: int| 0 <= bi < builds(g1).len() implies wf_build(#[trigger] builds(g1)[bi]) && build_ids_ok(g1, builds(g1)[bi]) && no_dup(builds(g1)[bi].outs.ids@) by {
            if bi < n {
                assert(builds(g1)[bi] == builds(g0)[bi]);
                assert(build_ids_ok(g0, builds(g0)[bi]));
            } else {
                assert(builds(g1)[bi] == b);
            }
        }
        assert forall|bi: int, j: int| 0 <= bi < builds(g1).len() && 0 <= j < builds(g1)[bi].outs.ids@.len() implies
                files(g1)[ix(#[trigger] builds(g1)[bi].outs.ids@[j])].input == Some(BuildId(bi as u32)) by {
            let fid = builds(g1)[bi].outs.ids@[j];
            if bi < n {
                assert(builds(g1)[bi] == builds(g0)[bi]);
                assert(build_ids_ok(g0, builds(g0)[bi]));
                assert(fid_ok(g0, fid));
                assert(files(g0)[ix(fid)].input == Some(BuildId(bi as u32)));
                let _ = files(g1)[ix(fid)];
            } else {
                assert(builds(g1)[bi] == b);
                assert(b.outs.ids@[j] == fid);
                assert(files(g0)[ix(fid)].input is None);
                assert(FileId(ix(fid) as u32) == fid);
                assert(b.outs.ids@.contains(fid));
                let _ = files(g1)[ix(fid)];
            }
        }
        assert forall|f: int| 0 <= f < files(g1).len() implies match (#[trigger] files(g1)[f]).input {
                Some(p) => ix(p) < builds(g1).len() && builds(g1)[ix(p)].outs.ids@.contains(FileId(f as u32)),
                None => true } by {
            let fid = FileId(f as u32);
            if files(g0)[f].input is None && b.outs.ids@.contains(fid) {
                assert(files(g1)[f].input == Some(nid));
                assert(builds(g1)[n] == b);
            } else {
                assert(files(g1)[f].input == files(g0)[f].input);
                match files(g0)[f].input {
                    Some(p) => { assert(builds(g1)[ix(p)] == builds(g0)[ix(p)]); }
                    None => {}
                }
            }
        }
    }

    pub open spec fn same_elems<T>(a: Seq<T>, b: Seq<T>) -> bool { forall|x: T| a.contains(x) == b.contains(x) }
    pub proof fn lemma_marked_congr(of: Seq<File>, nf: Seq<File>, nid: BuildId, d0: Seq<FileId>, d1: Seq<FileId>)
        requires outs_marked(of, nf, nid, d0), all_unproduced(of, d0), same_elems(d0, d1)
        ensures outs_marked(of, nf, nid, d1), all_unproduced(of, d1)
    {
        assert forall|f: int| 0 <= f < nf.len() implies (#[trigger] nf[f]).input ==
                (if of[f].input is None && d1.contains(FileId(f as u32)) { Some(nid) } else { of[f].input }) by {
            assert(d0.contains(FileId(f as u32)) == d1.contains(FileId(f as u32)));
        }
        assert forall|j: int| 0 <= j < d1.len() implies ix(#[trigger] d1[j]) < of.len() && of[ix(d1[j])].input is None by {
            assert(d1.contains(d1[j]));
            assert(d0.contains(d1[j]));
            let i = choose|i: int| 0 <= i < d0.len() && d0[i] == d1[j];
            assert(ix(d0[i]) < of.len());
        }
    }
    pub proof fn lemma_same_elems_push_dup<T>(d: Seq<T>, x: T)
        requires d.contains(x)
        ensures same_elems(d, d.push(x))
    {
        let e = d.push(x);
        assert forall|y: T| d.contains(y) == e.contains(y) by {
            if d.contains(y) { let i = choose|i: int| 0 <= i < d.len() && d[i] == y; assert(e[i] == y); }
            if e.contains(y) { let i = choose|i: int| 0 <= i < e.len() && e[i] == y; if i < d.len() { assert(d[i] == y); } }
        }
    }
    pub proof fn lemma_same_elems_dedup<T>(s: Seq<T>)
        ensures same_elems(s, dedup(s))
    {
        assert forall|y: T| s.contains(y) == dedup(s).contains(y) by { lemma_dedup_contains(s, y); }
    }
    pub proof fn lemma_no_dup_prefix<T>(s: Seq<T>, k: int)
        requires no_dup(s), 0 <= k <= s.len()
        ensures no_dup(s.subrange(0, k))
    {
        let t = s.subrange(0, k);
        assert forall|i: int, j: int| 0 <= i < j < t.len() implies t[i] != t[j] by { assert(t[i] == s[i] && t[j] == s[j]); }
    }
    pub proof fn lemma_ids_ok_dedup(g: Graph, s: Seq<FileId>)
        requires ids_ok(g, s)
        ensures ids_ok(g, dedup(s))
    {
        let d = dedup(s);
        assert forall|j: int| 0 <= j < d.len() implies fid_ok(g, #[trigger] d[j]) by {
            assert(d.contains(d[j]));
            lemma_dedup_contains(s, d[j]);
            let i = choose|i: int| 0 <= i < s.len() && s[i] == d[j];
            assert(fid_ok(g, s[i]));
        }
    }

    // --- record_finished vocabulary (shared by units sched and dirty)
    /// what a finished command may change in the graph: new input-less files, and nothing the scheduler looks at
    pub open spec fn graph_ext(g0: Graph, g1: Graph) -> bool {
        &&& builds(g1).len() == builds(g0).len()
        &&& forall|b: int| 0 <= b < builds(g0).len() ==> (#[trigger] builds(g1)[b]).ins == builds(g0)[b].ins
                && builds(g1)[b].outs == builds(g0)[b].outs && builds(g1)[b].pool == builds(g0)[b].pool
                && (builds(g1)[b].cmdline is None) == (builds(g0)[b].cmdline is None)
        &&& files(g1).len() >= files(g0).len()
        &&& forall|f: int| 0 <= f < files(g0).len() ==> (#[trigger] files(g1)[f]).input == files(g0)[f].input
                && files(g1)[f].dependents == files(g0)[f].dependents
    }
    /// g1 is g0 with new (input-less, dependent-less) files and the discovered list of step t replaced by deps
    pub open spec fn disc_replaced(g0: Graph, g1: Graph, t: BuildId, deps: Seq<FileId>) -> bool {
        &&& ix(t) < builds(g0).len() && builds(g1).len() == builds(g0).len()
        &&& files_ext(files(g0), files(g1)) && files(g1).len() < 0x1_0000_0000
        &&& forall|i: int| 0 <= i < builds(g0).len() && i != ix(t) ==> #[trigger] builds(g1)[i] == builds(g0)[i]
        &&& builds(g1)[ix(t)].discovered_ins@ == deps && same_except_discovered(builds(g1)[ix(t)], builds(g0)[ix(t)])
    }
    pub proof fn lemma_disc_replaced(g0: Graph, g1: Graph, t: BuildId, deps: Seq<FileId>)
        requires wf_graph(g0), disc_replaced(g0, g1, t, deps), ids_ok(g1, deps)
        ensures wf_graph(g1), graph_ext(g0, g1)
    {
        assert forall|b: int| 0 <= b < builds(g1).len() implies wf_build(#[trigger] builds(g1)[b]) && build_ids_ok(g1, builds(g1)[b]) && no_dup(builds(g1)[b].outs.ids@) by {
            assert(wf_build(builds(g0)[b]) && build_ids_ok(g0, builds(g0)[b]));
            if b != ix(t) { assert(builds(g1)[b] == builds(g0)[b]); }
            let x = builds(g1)[b]; let y = builds(g0)[b];
            assert(x.ins == y.ins && x.outs == y.outs);
            assert forall|j: int| 0 <= j < x.ins.ids@.len() implies fid_ok(g1, #[trigger] x.ins.ids@[j]) by { assert(fid_ok(g0, y.ins.ids@[j])); }
            assert forall|j: int| 0 <= j < x.outs.ids@.len() implies fid_ok(g1, #[trigger] x.outs.ids@[j]) by { assert(fid_ok(g0, y.outs.ids@[j])); }
            if b != ix(t) {
                assert forall|j: int| 0 <= j < x.discovered_ins@.len() implies fid_ok(g1, #[trigger] x.discovered_ins@[j]) by { assert(fid_ok(g0, y.discovered_ins@[j])); }
            }
        }
        assert forall|b: int, j: int| 0 <= b < builds(g1).len() && 0 <= j < builds(g1)[b].outs.ids@.len() implies
            files(g1)[ix(#[trigger] builds(g1)[b].outs.ids@[j])].input == Some(BuildId(b as u32)) by {
            if b != ix(t) { assert(builds(g1)[b] == builds(g0)[b]); }
            assert(builds(g1)[b].outs == builds(g0)[b].outs);
            assert(build_ids_ok(g0, builds(g0)[b]));
            assert(fid_ok(g0, builds(g0)[b].outs.ids@[j]));
            let _ = files(g1)[ix(builds(g1)[b].outs.ids@[j])];
        }
        assert forall|f: int| 0 <= f < files(g1).len() implies match (#[trigger] files(g1)[f]).input {
                Some(p) => ix(p) < builds(g1).len() && builds(g1)[ix(p)].outs.ids@.contains(FileId(f as u32)), None => true } by {
            if f < files(g0).len() {
                assert(files(g1)[f] == files(g0)[f]);
                match files(g0)[f].input { Some(p) => { if ix(p) != ix(t) { assert(builds(g1)[ix(p)] == builds(g0)[ix(p)]); } assert(builds(g1)[ix(p)].outs == builds(g0)[ix(p)].outs); } None => {} }
            }
        }
        assert forall|f: int, k: int| 0 <= f < files(g1).len() && 0 <= k < files(g1)[f].dependents@.len() implies ix(#[trigger] files(g1)[f].dependents@[k]) < builds(g1).len() by {
            if f < files(g0).len() { assert(files(g1)[f] == files(g0)[f]); }
        }
        assert forall|b: int| 0 <= b < builds(g0).len() implies (#[trigger] builds(g1)[b]).ins == builds(g0)[b].ins
                && builds(g1)[b].outs == builds(g0)[b].outs && builds(g1)[b].pool == builds(g0)[b].pool
                && (builds(g1)[b].cmdline is None) == (builds(g0)[b].cmdline is None) by {
            if b != ix(t) { assert(builds(g1)[b] == builds(g0)[b]); }
        }
    }

    /// new input-less, dependent-less files do not disturb the graph invariant
    pub proof fn lemma_files_ext_wf(g0: Graph, g1: Graph)
        requires wf_graph(g0), g1.builds == g0.builds, files_ext(files(g0), files(g1)), files(g1).len() < 0x1_0000_0000
        ensures wf_graph(g1)
    {
        assert forall|b: int| 0 <= b < builds(g1).len() implies wf_build(#[trigger] builds(g1)[b]) && build_ids_ok(g1, builds(g1)[b]) && no_dup(builds(g1)[b].outs.ids@) by {
            assert(build_ids_ok(g0, builds(g0)[b]));
            let x = builds(g1)[b];
            assert forall|j: int| 0 <= j < x.ins.ids@.len() implies fid_ok(g1, #[trigger] x.ins.ids@[j]) by { assert(fid_ok(g0, x.ins.ids@[j])); }
            assert forall|j: int| 0 <= j < x.outs.ids@.len() implies fid_ok(g1, #[trigger] x.outs.ids@[j]) by { assert(fid_ok(g0, x.outs.ids@[j])); }
            assert forall|j: int| 0 <= j < x.discovered_ins@.len() implies fid_ok(g1, #[trigger] x.discovered_ins@[j]) by { assert(fid_ok(g0, x.discovered_ins@[j])); }
        }
        assert forall|b: int, j: int| 0 <= b < builds(g1).len() && 0 <= j < builds(g1)[b].outs.ids@.len() implies
            files(g1)[ix(#[trigger] builds(g1)[b].outs.ids@[j])].input == Some(BuildId(b as u32)) by {
            assert(build_ids_ok(g0, builds(g0)[b]));
            assert(fid_ok(g0, builds(g0)[b].outs.ids@[j]));
            let _ = files(g1)[ix(builds(g1)[b].outs.ids@[j])];
        }
        assert forall|f: int| 0 <= f < files(g1).len() implies match (#[trigger] files(g1)[f]).input {
                Some(p) => ix(p) < builds(g1).len() && builds(g1)[ix(p)].outs.ids@.contains(FileId(f as u32)), None => true } by {
            if f < files(g0).len() { assert(files(g1)[f] == files(g0)[f]); }
        }
        assert forall|f: int, k: int| 0 <= f < files(g1).len() && 0 <= k < files(g1)[f].dependents@.len() implies ix(#[trigger] files(g1)[f].dependents@[k]) < builds(g1).len() by {
            if f < files(g0).len() { assert(files(g1)[f] == files(g0)[f]); }
        }
    }

    /// existing files keep their names (ids keep denoting the same path); new files may be added
    pub open spec fn names_ext(of: Seq<File>, nf: Seq<File>) -> bool {
        nf.len() >= of.len() && forall|f: int| 0 <= f < of.len() ==> (#[trigger] nf[f]).name == of[f].name
    }
    }
}
