// ---- graph spec vocabulary (DESIGN §4) ---------------------------------------------------
pub mod gs {
    use vstd::prelude::*;
    use crate::graph::*;
    use crate::vx_keys::{vx_ix, ix};
    verus! {
    broadcast use crate::vx_keys::group_keys;

    // --- the slices of Build.ins / Build.outs, taken from the property statements:
    //     explicit, implicit, order-only, validation in that order.
    pub open spec fn n_explicit(b: Build) -> int { b.ins.explicit as int }
    pub open spec fn n_dirtying(b: Build) -> int { b.ins.explicit + b.ins.implicit }
    pub open spec fn n_ordering(b: Build) -> int { b.ins.explicit + b.ins.implicit + b.ins.order_only }
    pub open spec fn wf_build(b: Build) -> bool {
        n_ordering(b) <= b.ins.ids@.len() <= usize::MAX && b.outs.explicit <= b.outs.ids@.len()
    }
    pub open spec fn explicit_ins(b: Build) -> Seq<FileId> { b.ins.ids@.subrange(0, n_explicit(b)) }
    pub open spec fn dirtying_ins(b: Build) -> Seq<FileId> { b.ins.ids@.subrange(0, n_dirtying(b)) }
    pub open spec fn ordering_ins(b: Build) -> Seq<FileId> { b.ins.ids@.subrange(0, n_ordering(b)) }
    pub open spec fn validation_ins(b: Build) -> Seq<FileId> { b.ins.ids@.subrange(n_ordering(b), b.ins.ids@.len() as int) }
    pub open spec fn explicit_outs(b: Build) -> Seq<FileId> { b.outs.ids@.subrange(0, b.outs.explicit as int) }
    pub open spec fn outs(b: Build) -> Seq<FileId> { b.outs.ids@ }

    // --- de-duplication keeping first occurrences, in order
    pub open spec fn dedup<T>(s: Seq<T>) -> Seq<T>
        decreases s.len()
    {
        if s.len() == 0 { Seq::empty() } else {
            let d = dedup(s.drop_last());
            if s.drop_last().contains(s.last()) { d } else { d.push(s.last()) }
        }
    }
    pub proof fn lemma_dedup_contains<T>(s: Seq<T>, x: T)
        ensures dedup(s).contains(x) == s.contains(x)
        decreases s.len()
    {
        if s.len() == 0 {
        } else {
            let t = s.drop_last();
            lemma_dedup_contains(t, x);
            lemma_dedup_contains(t, s.last());
            assert(s =~= t.push(s.last()));
            if s.contains(x) {
                let i = choose|i: int| 0 <= i < s.len() && s[i] == x;
                if i < t.len() { assert(t[i] == x); assert(t.contains(x)); }
            }
            if dedup(s).contains(x) {
                if t.contains(s.last()) {
                } else {
                    let d = dedup(t);
                    let i = choose|i: int| 0 <= i < d.push(s.last()).len() && d.push(s.last())[i] == x;
                    if i < d.len() { assert(d[i] == x); assert(d.contains(x)); }
                    else { assert(x == s.last()); assert(s[s.len() - 1] == x); }
                }
            }
            if t.contains(x) {
                let i = choose|i: int| 0 <= i < t.len() && t[i] == x;
                assert(s[i] == x);
                if !t.contains(s.last()) {
                    let d = dedup(t);
                    let j = choose|j: int| 0 <= j < d.len() && d[j] == x;
                    assert(d.push(s.last())[j] == x);
                }
            }
            if x == s.last() && !t.contains(s.last()) {
                let d = dedup(t);
                assert(d.push(s.last())[d.len() as int] == x);
            }
        }
    }
    pub proof fn lemma_dedup_len<T>(s: Seq<T>)
        ensures dedup(s).len() <= s.len()
        decreases s.len()
    {
        if s.len() > 0 { lemma_dedup_len(s.drop_last()); }
    }
    pub proof fn lemma_dedup_no_dup<T>(s: Seq<T>)
        ensures forall|i: int, j: int| 0 <= i < j < dedup(s).len() ==> dedup(s)[i] != dedup(s)[j]
        decreases s.len()
    {
        if s.len() > 0 {
            let t = s.drop_last();
            lemma_dedup_no_dup(t);
            if !t.contains(s.last()) {
                let d = dedup(t);
                assert forall|i: int, j: int| 0 <= i < j < d.push(s.last()).len() implies d.push(s.last())[i] != d.push(s.last())[j] by {
                    if j == d.len() {
                        lemma_dedup_contains(t, s.last());
                        if d[i] == s.last() { assert(d.contains(s.last())); }
                    }
                }
            }
        }
    }
    /// dedup of a prefix is a prefix of the dedup
    pub proof fn lemma_dedup_prefix<T>(s: Seq<T>, k: int)
        requires 0 <= k <= s.len()
        ensures dedup(s.subrange(0, k)).len() <= dedup(s).len(),
                dedup(s.subrange(0, k)) =~= dedup(s).subrange(0, dedup(s.subrange(0, k)).len() as int)
        decreases s.len() - k
    {
        if k == s.len() {
            assert(s.subrange(0, k) =~= s);
        } else {
            lemma_dedup_prefix(s, k + 1);
            let a = s.subrange(0, k + 1);
            assert(a.drop_last() =~= s.subrange(0, k));
        }
    }

    pub open spec fn min(a: int, b: int) -> int { if a < b { a } else { b } }
    /// explicit-output count after the first i list positions have been processed
    pub open spec fn expl_after<T>(s: Seq<T>, e: int, i: int) -> int {
        e - (min(i, e) - dedup(s.subrange(0, min(i, e))).len())
    }
    pub proof fn lemma_expl_step<T>(s: Seq<T>, e: int, i: int)
        requires 0 <= e <= s.len(), 0 <= i < s.len()
        ensures
            s.subrange(0, i + 1).drop_last() =~= s.subrange(0, i),
            s.subrange(0, i + 1).last() == s[i],
            i < e && s.subrange(0, i).contains(s[i]) ==> expl_after(s, e, i + 1) == expl_after(s, e, i) - 1 && expl_after(s, e, i) >= 1,
            i < e && !s.subrange(0, i).contains(s[i]) ==> expl_after(s, e, i + 1) == expl_after(s, e, i),
            i >= e ==> expl_after(s, e, i + 1) == expl_after(s, e, i),
            dedup(s.subrange(0, i + 1)) == if s.subrange(0, i).contains(s[i]) { dedup(s.subrange(0, i)) } else { dedup(s.subrange(0, i)).push(s[i]) },
            expl_after(s, e, 0) == e,
    {
        assert(s.subrange(0, i + 1).drop_last() =~= s.subrange(0, i));
        assert(s.subrange(0, 0) =~= Seq::<T>::empty());
        if i < e && s.subrange(0, i).contains(s[i]) {
            lemma_dedup_contains(s.subrange(0, i), s[i]);
            let d = dedup(s.subrange(0, i));
            let k = choose|k: int| 0 <= k < d.len() && d[k] == s[i];
            assert(d.len() >= 1);
        }
        lemma_dedup_len(s.subrange(0, min(i, e)));
    }

    // --- graph well-formedness (unique producer: C14)
    pub open spec fn files(g: Graph) -> Seq<File> { g.files.by_id.vec@ }
    pub open spec fn builds(g: Graph) -> Seq<Build> { g.builds.vec@ }
    pub open spec fn fid_ok(g: Graph, f: FileId) -> bool { ix(f) < files(g).len() }
    pub open spec fn ids_ok(g: Graph, s: Seq<FileId>) -> bool { forall|j: int| 0 <= j < s.len() ==> fid_ok(g, #[trigger] s[j]) }
    pub open spec fn build_ids_ok(g: Graph, b: Build) -> bool {
        ids_ok(g, b.ins.ids@) && ids_ok(g, b.outs.ids@) && ids_ok(g, b.discovered_ins@)
    }
    pub open spec fn no_dup<T>(s: Seq<T>) -> bool { forall|i: int, j: int| 0 <= i < j < s.len() ==> s[i] != s[j] }
    /// every output of every build names that build as its (only) producer, and every
    /// producer link points at a build that lists the file
    pub open spec fn wf_graph(g: Graph) -> bool {
        &&& builds(g).len() < 0x1_0000_0000
        &&& files(g).len() < 0x1_0000_0000
        &&& forall|b: int| 0 <= b < builds(g).len() ==> wf_build(#[trigger] builds(g)[b]) && build_ids_ok(g, builds(g)[b]) && no_dup(builds(g)[b].outs.ids@)
        &&& forall|b: int, j: int| 0 <= b < builds(g).len() && 0 <= j < builds(g)[b].outs.ids@.len() ==>
                files(g)[ix(#[trigger] builds(g)[b].outs.ids@[j])].input == Some(BuildId(b as u32))
        &&& forall|f: int| 0 <= f < files(g).len() ==> match (#[trigger] files(g)[f]).input {
                Some(p) => ix(p) < builds(g).len() && builds(g)[ix(p)].outs.ids@.contains(FileId(f as u32)),
                None => true }
    }
    }
}
