// ---- scanner spec vocabulary (C12 / C15 / C10) ------------------------------------------------
pub mod sc {
    use vstd::prelude::*;
    use crate::scanner::*;
    verus! {
    /// number of '\n' bytes in buf[..k]
    pub open spec fn nl(buf: Seq<u8>, k: int) -> int
        decreases k
    { if k <= 0 { 0 } else { nl(buf, k - 1) + if buf[k - 1] == 10u8 { 1int } else { 0int } } }
    pub proof fn lemma_nl_bound(buf: Seq<u8>, k: int)
        requires 0 <= k <= buf.len()
        ensures 0 <= nl(buf, k) <= k
        decreases k
    { if k > 0 { lemma_nl_bound(buf, k - 1); } }
    /// the scanner's data invariant: NUL-terminated buffer, offset inside it, line = 1 + newlines consumed
    pub open spec fn wf(s: Scanner) -> bool {
        s.buf@.len() >= 1 && s.buf@[s.buf@.len() - 1] == 0u8 && s.ofs <= s.buf@.len() && s.buf@.len() < usize::MAX
        && s.line as int == 1 + nl(s.buf@, s.ofs as int)
    }
    /// positioned on a readable byte (the terminating NUL has not been consumed)
    pub open spec fn live(s: Scanner) -> bool { wf(s) && s.ofs < s.buf@.len() }
    pub open spec fn cur(s: Scanner) -> u8 { s.buf@[s.ofs as int] }
    pub open spec fn settled_at(buf: Seq<u8>, k: int) -> bool { !(k > 0 && k < buf.len() && buf[k] == 10u8 && buf[k - 1] == 13u8) }
    /// the parser's position invariant between tokens
    pub open spec fn ok(s: Scanner) -> bool { live(s) && settled(s) }
    pub open spec fn tok(buf: Seq<u8>, a: int, b: int) -> Seq<u8> { buf.subrange(a, b) }
    /// where back() lands when called at offset o (> 0)
    /// bytes of a `$name` reference without braces: [a-zA-Z0-9_-]
    pub open spec fn vname(b: u8) -> bool {
        (97 <= b <= 122) || (65 <= b <= 90) || (48 <= b <= 57) || b == 95u8 || b == 45u8
    }
    pub open spec fn back_to(buf: Seq<u8>, o: int) -> int { if o >= 2 && buf[o - 1] == 10u8 && buf[o - 2] == 13u8 { o - 2 } else { o - 1 } }
    /// depfile token delimiter at position j: NUL, space, newline, or a backslash-newline continuation
    pub open spec fn dep_delim(buf: Seq<u8>, j: int) -> bool {
        buf[j] == 0u8 || buf[j] == 32u8 || buf[j] == 10u8 || (buf[j] == 92u8 && j + 1 < buf.len() && buf[j + 1] == 10u8)
    }
    /// not on the '\n' of a "\r\n" pair (where back() would step over both bytes)
    pub open spec fn settled(s: Scanner) -> bool { !(s.ofs > 0 && s.ofs < s.buf@.len() && s.buf@[s.ofs as int] == 10u8 && s.buf@[s.ofs - 1] == 13u8) }

    // --- C10: what read_escape / read_eval make of the text
    /// part p, ending at e, is what follows the `$` whose next byte is at o
    pub open spec fn escape_rel(b: Seq<u8>, o: int, p: crate::eval::EvalPart<&str>, e: int) -> bool {
        let c = b[o];
        match p {
            crate::eval::EvalPart::Literal(t) => (c == 10u8 && crate::vx_utf8(t@).len() == 0 && b[e] != 32u8 && (forall|j: int| o + 1 <= j < e ==> #[trigger] b[j] == 32u8))
                || ((c == 32u8 || c == 36u8 || c == 58u8) && e == o + 1 && crate::vx_utf8(t@) == b.subrange(o, o + 1)),
            crate::eval::EvalPart::VarRef(t) => (c == 123u8 && e >= o + 2 && b[e - 1] == 125u8 && crate::vx_utf8(t@) == b.subrange(o + 1, e - 1)
                    && forall|j: int| o + 1 <= j < e - 1 ==> #[trigger] b[j] != 125u8 && b[j] != 0u8)
                || (c != 123u8 && c != 10u8 && c != 32u8 && c != 36u8 && c != 58u8 && crate::vx_utf8(t@) == b.subrange(o, e)
                    && (forall|j: int| o <= j < e ==> vname(#[trigger] b[j])) && !vname(b[e])),
        }
    }
    /// one segment [a, e) of the text and the part made of it: an escape if it starts with `$`, else a literal run without `$`
    pub open spec fn seg_ok(b: Seq<u8>, a: int, e: int, p: crate::eval::EvalPart<&str>) -> bool {
        if b[a] == 36u8 { escape_rel(b, a + 1, p, e) }
        else { (match p { crate::eval::EvalPart::Literal(t) => crate::vx_utf8(t@) == b.subrange(a, e), _ => false })
               && forall|j: int| a <= j < e ==> #[trigger] b[j] != 36u8 }
    }
    /// the parts account for the text [o0, upto), segment by segment, in order, with nothing skipped and nothing read twice
    #[verifier::opaque]
    pub open spec fn covers(b: Seq<u8>, o0: int, upto: int, segs: Seq<(int, int)>, parts: Seq<crate::eval::EvalPart<&str>>) -> bool {
        &&& segs.len() == parts.len()
        &&& (segs.len() == 0 ==> upto == o0)
        &&& (segs.len() > 0 ==> segs[0].0 == o0 && segs.last().1 == upto)
        &&& forall|i: int| 0 <= i < segs.len() ==> o0 <= (#[trigger] segs[i]).0 < segs[i].1 <= upto && segs[i].1 <= b.len() && seg_ok(b, segs[i].0, segs[i].1, parts[i])
        &&& forall|i: int| 0 <= i < segs.len() - 1 ==> (#[trigger] segs[i]).1 == segs[i + 1].0
    }
    pub proof fn lemma_covers_push(b: Seq<u8>, o0: int, upto: int, segs: Seq<(int, int)>, parts: Seq<crate::eval::EvalPart<&str>>, e: int, p: crate::eval::EvalPart<&str>)
        requires covers(b, o0, upto, segs, parts), o0 <= upto < e <= b.len(), seg_ok(b, upto, e, p)
        ensures covers(b, o0, e, segs.push((upto, e)), parts.push(p))
    {
        reveal(covers);
        let s2 = segs.push((upto, e)); let p2 = parts.push(p);
        assert forall|i: int| 0 <= i < s2.len() implies o0 <= (#[trigger] s2[i]).0 < s2[i].1 <= e && s2[i].1 <= b.len() && seg_ok(b, s2[i].0, s2[i].1, p2[i]) by {
            if i < segs.len() { assert(s2[i] == segs[i] && p2[i] == parts[i]); }
        }
        assert forall|i: int| 0 <= i < s2.len() - 1 implies (#[trigger] s2[i]).1 == s2[i + 1].0 by {
            if i < segs.len() - 1 { assert(s2[i] == segs[i] && s2[i + 1] == segs[i + 1]); } else { assert(s2[i] == segs[i]); }
        }
    }

    pub proof fn lemma_covers_empty(b: Seq<u8>, o0: int)
        ensures covers(b, o0, o0, Seq::empty(), Seq::empty()) { reveal(covers); }

    // --- C15: the flattened parse result
    /// a depfile target token: the ':' that ends it (if it does) is not part of the name
    pub open spec fn strip_colon(b: Seq<u8>) -> Seq<u8> { if b.len() > 0 && b.last() == 58u8 { b.drop_last() } else { b } }
    pub open spec fn views(v: Seq<&str>) -> Seq<Seq<char>> { Seq::new(v.len(), |i: int| v[i]@) }
    pub open spec fn flat(res: Seq<(&str, Vec<&str>)>) -> Seq<Seq<char>>
        decreases res.len()
    { if res.len() == 0 { Seq::empty() } else { flat(res.drop_last()) + views(res.last().1@) } }
    pub proof fn lemma_flat_push(res: Seq<(&str, Vec<&str>)>, k: &str, v: Vec<&str>)
        ensures flat(res.push((k, v))) == flat(res) + views(v@)
    { assert(res.push((k, v)).drop_last() =~= res); }
    }
}
