// ---- render unit (C20): StateCounts index vocabulary -----------------------------------------------
pub mod rnw {
    use vstd::prelude::*;
    use crate::work::BuildState;
    verus! {
    pub open spec fn idx_of(s: BuildState) -> int {
        match s { BuildState::Want => 0, BuildState::Ready => 1, BuildState::Queued => 2, BuildState::Running => 3, BuildState::Done => 4, _ => 5 }
    }
    }
}
