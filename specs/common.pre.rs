// ---- shared preamble: shims (R4, R7) ---------------------------------------------------
// R4: message-building macros produce an opaque value; control flow of bail! is kept.
macro_rules! format { ($($t:tt)*) => { crate::vx_shim::opaque_string() } }
macro_rules! println { ($($t:tt)*) => { crate::vx_shim::opaque_unit() } }
macro_rules! eprintln { ($($t:tt)*) => { crate::vx_shim::opaque_unit() } }
macro_rules! write { ($($t:tt)*) => { crate::vx_shim::opaque_fmt_result() } }
macro_rules! writeln { ($($t:tt)*) => { crate::vx_shim::opaque_fmt_result() } }

pub mod vx_shim {
    use vstd::prelude::*;
    #[verifier::external_body]
    #[verus_spec()]
    pub fn opaque_string() -> String { unimplemented!() }
    #[verifier::external_body]
    #[verus_spec()]
    pub fn opaque_unit() { unimplemented!() }
    #[verifier::external_body]
    #[verus_spec()]
    pub fn opaque_fmt_result() -> Result<(), std::fmt::Error> { unimplemented!() }
}

// R7: anyhow shim (Error is opaque; bail!/anyhow! keep control flow, drop the message).
pub mod anyhow {
    use vstd::prelude::*;
    #[verus_verify]
    pub struct Error { pub vx_opaque: u8 }
    pub type Result<T> = core::result::Result<T, Error>;
    #[verifier::external_body]
    #[verus_spec()]
    pub fn vx_error() -> Error { unimplemented!() }
    #[verifier::external_body]
    #[verus_spec()]
    pub fn vx_error_from<E>(e: E) -> Error { unimplemented!() }
    macro_rules! bail { ($($t:tt)*) => { return Err(crate::anyhow::vx_error()) } }
    macro_rules! anyhow { ($($t:tt)*) => { crate::anyhow::vx_error() } }
    pub(crate) use bail;
    pub(crate) use anyhow;
}

// R7: rustc_hash shim.
pub mod rustc_hash {
    pub type FxHashMap<K, V> = std::collections::HashMap<K, V>;
}

// ---- opaque std types ---------------------------------------------------------------
verus! {
#[verifier::external_type_specification]
#[verifier::external_body]
pub struct ExPathBuf(std::path::PathBuf);

#[verifier::external_type_specification]
#[verifier::external_body]
pub struct ExPath(std::path::Path);

#[verifier::external_type_specification]
#[verifier::external_body]
pub struct ExSystemTime(std::time::SystemTime);
}

// ---- machine facts (trusted) -----------------------------------------------------------
pub mod vx_facts {
    use vstd::prelude::*;
    verus! {
    /// a Vec's length fits in usize
    pub broadcast axiom fn ax_vec_len<T>(v: Vec<T>)
        ensures #[trigger] v@.len() <= usize::MAX;
    }
}
