// ---- shared preamble: shims (R4, R7) ---------------------------------------------------
// R4: message-building macros produce an opaque value; control flow of bail! is kept.
// The argument expressions are still evaluated (by reference), so panics / index checks inside
// message arguments stay proof obligations; only the formatting itself is dropped.
macro_rules! vx_eval_args {
    () => {};
    ($fmt:literal) => {};
    ($fmt:literal, $($rest:tt)*) => { vx_eval_args!(@a $($rest)*) };
    (@a) => {};
    (@a $name:ident = $arg:expr) => { let _ = &$arg; };
    (@a $name:ident = $arg:expr, $($rest:tt)*) => { let _ = &$arg; vx_eval_args!(@a $($rest)*) };
    (@a $arg:expr) => { let _ = &$arg; };
    (@a $arg:expr, $($rest:tt)*) => { let _ = &$arg; vx_eval_args!(@a $($rest)*) };
    ($arg:expr) => { let _ = &$arg; };
}
macro_rules! format { ($($t:tt)*) => {{ vx_eval_args!($($t)*); crate::vx_shim::opaque_string() }} }
macro_rules! println { ($($t:tt)*) => {{ vx_eval_args!($($t)*); crate::vx_shim::opaque_unit() }} }
macro_rules! eprintln { ($($t:tt)*) => {{ vx_eval_args!($($t)*); crate::vx_shim::opaque_unit() }} }
macro_rules! write { ($dst:expr, $($t:tt)*) => {{ vx_eval_args!($($t)*); crate::vx_shim::opaque_fmt_result() }} }
macro_rules! writeln { ($dst:expr, $($t:tt)*) => {{ vx_eval_args!($($t)*); crate::vx_shim::opaque_fmt_result() }} }

pub mod vx_shim {
    use vstd::prelude::*;
    #[verifier::external_body]
    #[verus_spec()]
    pub fn opaque_string() -> String { unimplemented!() }
    #[verifier::external_body]
    #[verus_spec()]
    pub fn opaque_unit() { unimplemented!() }
    #[verifier::external_body]
    #[verus_spec()]
    pub fn opaque_fmt_result() -> Result<(), std::fmt::Error> { unimplemented!() }
}

// R7: anyhow shim (Error is opaque; bail!/anyhow! keep control flow, drop the message).
pub mod anyhow {
    use vstd::prelude::*;
    #[verus_verify]
    pub struct Error { pub vx_opaque: u8 }
    pub type Result<T> = core::result::Result<T, Error>;
    #[verifier::external_body]
    #[verus_spec()]
    pub fn vx_error() -> Error { unimplemented!() }
    #[verifier::external_body]
    #[verus_spec()]
    pub fn vx_error_from<E>(e: E) -> Error { unimplemented!() }
    macro_rules! bail { ($($t:tt)*) => {{ vx_eval_args!($($t)*); return Err(crate::anyhow::vx_error()) }} }
    macro_rules! anyhow { ($($t:tt)*) => {{ vx_eval_args!($($t)*); crate::anyhow::vx_error() }} }
    pub(crate) use bail;
    pub(crate) use anyhow;
}

// R7: rustc_hash shim.
pub mod rustc_hash {
    pub type FxHashMap<K, V> = std::collections::HashMap<K, V>;
}

// machine word: usize is 64 bit (DESIGN §7)
verus! { global size_of usize == 8; }

// ---- opaque std types ---------------------------------------------------------------
verus! {
#[verifier::external_type_specification]
#[verifier::external_body]
pub struct ExPathBuf(std::path::PathBuf);

#[verifier::external_type_specification]
#[verifier::external_body]
pub struct ExPath(std::path::Path);

#[verifier::external_type_specification]
#[verifier::external_body]
pub struct ExSystemTime(std::time::SystemTime);
}

// ---- machine facts (trusted) -----------------------------------------------------------
pub mod vx_facts {
    use vstd::prelude::*;
    verus! {
    /// a Vec's length fits in usize
    pub broadcast axiom fn ax_vec_len<T>(v: Vec<T>)
        ensures #[trigger] v@.len() <= usize::MAX;
    /// a byte vector's length fits in isize (allocation limit)
    pub broadcast axiom fn ax_vec_u8_len(v: Vec<u8>)
        ensures #[trigger] v@.len() <= isize::MAX;
    /// a byte slice's length fits in isize (no object is larger than isize::MAX bytes)
    pub broadcast axiom fn ax_slice_u8_len(s: &[u8])
        ensures #[trigger] s@.len() <= isize::MAX;
    /// a slice's length fits in usize
    pub broadcast axiom fn ax_slice_len<T>(s: &[T])
        ensures #[trigger] s@.len() <= usize::MAX;
    }
}

// ---- path canonicalisation as an uninterpreted function (its definition is the business of unit canon / C13)
pub mod vx_canon {
    use vstd::prelude::*;
    verus! {
    pub uninterp spec fn canon(s: Seq<char>) -> Seq<char>;
    /// number of components of a path (component starts); canonicalize_path panics above 60 (its stack is fixed-size)
    pub uninterp spec fn ncomp(s: Seq<char>) -> int;
    /// a name as the graph's name -> id map expects it (C13: every path reaches the map through canonicalisation)
    pub open spec fn is_canon(s: Seq<char>) -> bool { canon(s) == s }
    /// Canonicalisation is idempotent.  Unit canon proves the code equal to the byte-level spec function cn::canon for all
    /// inputs and proves cn::lemma_canon_idempotent for that function; this char-level statement is its image under the
    /// (trusted, uninterpreted) utf-8 string model.
    pub broadcast axiom fn ax_canon_idem(s: Seq<char>)
        ensures #[trigger] canon(canon(s)) == canon(s);
    }
}

// ---- std specs missing from vstd (trusted; the contract is the std documentation)
verus! {
/// R9 wrappers for std::path / std::fs calls (opaque: no property depends on their results)
#[verifier::external_body] pub fn vx_pathbuf_from<S: Into<std::path::PathBuf>>(s: S) -> (r: std::path::PathBuf) { s.into() }
#[verifier::external_body] pub fn vx_path_join(a: &String, b: std::path::PathBuf) -> (r: std::path::PathBuf) { std::path::Path::new(a).join(b) }
#[verifier::external_body] pub fn vx_path_parent(p: &std::path::PathBuf) -> (r: Option<&std::path::Path>) { p.parent() }
#[verifier::external_body] pub fn vx_create_dir_all(p: &std::path::Path) -> (r: Result<(), crate::anyhow::Error>) { unimplemented!() }
/// R9 wrapper for Vec::extend(Vec): appends the elements in order
#[verifier::external_body]
pub fn vx_vec_extend<T>(v: &mut Vec<T>, other: Vec<T>)
    ensures final(v)@ == old(v)@ + other@
{ v.extend(other) }
/// char classification: specified on ASCII only (what Unicode says about the rest is left open)
pub assume_specification [char::is_alphanumeric] (c: char) -> (r: bool)
    ensures (c as u32) < 128 ==> r == ((97 <= c as u32 <= 122) || (65 <= c as u32 <= 90) || (48 <= c as u32 <= 57));
pub assume_specification [char::is_ascii_alphanumeric] (c: &char) -> (r: bool)
    ensures r == ((97 <= *c as u32 <= 122) || (65 <= *c as u32 <= 90) || (48 <= *c as u32 <= 57));
pub assume_specification<T, P: FnOnce(&T) -> bool> [core::option::Option::<T>::filter] (o: Option<T>, p: P) -> (r: Option<T>)
    requires o is Some ==> call_requires(p, (&o->Some_0,)),
    ensures (match o {
        Some(x) => (match r { Some(y) => x == y && call_ensures(p, (&x,), true), None => call_ensures(p, (&x,), false) }),
        None => r is None });
}

// `==` on String is equality of the characters (vstd leaves PartialEqSpec for String unspecified): trusted
pub mod vx_string_eq { use vstd::prelude::*; use vstd::std_specs::cmp::PartialEqSpec;
verus!{
pub broadcast axiom fn ax_obeys() ensures #[trigger] <String as PartialEqSpec<String>>::obeys_eq_spec();
pub broadcast axiom fn ax_eq(a: &String, b: &String) ensures #[trigger] <String as PartialEqSpec<String>>::eq_spec(a, b) == (a@ == b@);
pub broadcast group g { ax_obeys, ax_eq }
}}

// `==` on str is equality of the characters (vstd leaves PartialEqSpec for str unspecified): trusted
pub mod vx_str_eq { use vstd::prelude::*; use vstd::std_specs::cmp::PartialEqSpec;
verus!{
pub broadcast axiom fn ax_obeys() ensures #[trigger] <str as PartialEqSpec<str>>::obeys_eq_spec();
pub broadcast axiom fn ax_eq(a: &str, b: &str) ensures #[trigger] <str as PartialEqSpec<str>>::eq_spec(a, b) == (a@ == b@);
pub broadcast group g { ax_obeys, ax_eq }
}}

// ---- R9 trusted wrappers (same body as the std call they rename; only the contract is new) ----
verus! {
pub trait VxAsDeref {
    spec fn vx_view(&self) -> Option<Seq<char>>;
    fn vx_as_deref(&self) -> (r: Option<&str>)
        ensures (match r { Some(s) => self.vx_view() == Some(s@), None => self.vx_view() is None }),
            r is Some == self.vx_view() is Some, r is Some ==> r.unwrap()@ == self.vx_view().unwrap();
}
impl VxAsDeref for Option<String> {
    open spec fn vx_view(&self) -> Option<Seq<char>> { match self { Some(s) => Some(s@), None => None } }
    #[verifier::external_body]
    fn vx_as_deref(&self) -> (r: Option<&str>) { self.as_deref() }
}
}
verus! {
pub assume_specification<T: Copy> [Option::<&T>::copied](o: Option<&T>) -> (r: Option<T>)
    ensures r == (match o { Some(x) => Some(*x), None => None });
}
