// ---- dense-key vocabulary -------------------------------------------------------------
// vx_ix(k) is the spec-level value of `densemap::Index::index(&k)`.  It is uninterpreted for
// a generic K; per key type a *definitional* axiom gives its value.  Each trait impl of
// `Index::index` in /repo is verified against `ensures r == vx_ix(*self)`, so a changed
// impl body contradicts the axiom and fails.
pub mod vx_keys {
    use vstd::prelude::*;
    verus! {
    pub uninterp spec fn vx_ix<K>(k: K) -> usize;
    pub open spec fn ix<K>(k: K) -> int { vx_ix(k) as int }
    pub broadcast axiom fn ax_ix_fileid(k: crate::graph::FileId)
        ensures #[trigger] vx_ix(k) == k.0 as usize;
    pub broadcast axiom fn ax_ix_buildid(k: crate::graph::BuildId)
        ensures #[trigger] vx_ix(k) == k.0 as usize;
    /// ASSUMED: the (derived) Hash/Eq impls of the id types make them valid hash-table keys
    pub broadcast axiom fn ax_key_model_fileid()
        ensures #[trigger] vstd::std_specs::hash::obeys_key_model::<crate::graph::FileId>();
    pub broadcast axiom fn ax_key_model_buildid()
        ensures #[trigger] vstd::std_specs::hash::obeys_key_model::<crate::graph::BuildId>();
    pub broadcast group group_keys { ax_ix_fileid, ax_ix_buildid, ax_key_model_fileid, ax_key_model_buildid }
    }
}
pub use crate::vx_keys::{vx_ix, ix};
verus! {
impl<K: crate::densemap::Index, V> vstd::std_specs::core::IndexSpecImpl<K> for crate::densemap::DenseMap<K, V> {
    open spec fn index_req(&self, k: &K) -> bool { ix(*k) < self.vec@.len() }
}
impl vstd::std_specs::convert::FromSpecImpl<usize> for crate::graph::FileId {
    open spec fn obeys_from_spec() -> bool { true }
    open spec fn from_spec(v: usize) -> Self { crate::graph::FileId(v as u32) }
}
impl vstd::std_specs::convert::FromSpecImpl<usize> for crate::graph::BuildId {
    open spec fn obeys_from_spec() -> bool { true }
    open spec fn from_spec(v: usize) -> Self { crate::graph::BuildId(v as u32) }
}
// derive(PartialEq) on these types is structural equality (trusted: definition of the derive)
impl vstd::std_specs::cmp::PartialEqSpecImpl for crate::graph::FileId {
    open spec fn obeys_eq_spec() -> bool { true }
    open spec fn eq_spec(&self, other: &crate::graph::FileId) -> bool { *self == *other }
}
impl vstd::std_specs::cmp::PartialEqSpecImpl for crate::graph::BuildId {
    open spec fn obeys_eq_spec() -> bool { true }
    open spec fn eq_spec(&self, other: &crate::graph::BuildId) -> bool { *self == *other }
}
pub assume_specification<T> [std::mem::replace] (dest: &mut T, src: T) -> (r: T)
    ensures r == *old(dest), *final(dest) == src;
}

// R10 drops derive(Hash); the ids are used as hash-map keys, so give them back the derived impl (unverified, trusted)
#[verifier::external]
impl std::hash::Hash for crate::graph::BuildId {
    fn hash<H: std::hash::Hasher>(&self, state: &mut H) { self.0.hash(state) }
}
#[verifier::external]
impl std::hash::Hash for crate::graph::FileId {
    fn hash<H: std::hash::Hasher>(&self, state: &mut H) { self.0.hash(state) }
}
