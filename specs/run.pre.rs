// ---- run unit (C17, C18 target selection, C05/C19 result): ghost protocol state ------------------------------
// run::build drives load::read / Work::new / lookup / want_* / run.  Each of these calls is renamed (R9) to a trusted
// stub that stands for the call (body elided) plus a ghost protocol state `PS` threaded through a local `vx_h`.  The protocol -- written
// from the statements of C17/C18/C05/C19 -- is the wrappers' preconditions; build's real text has to discharge them.
pub mod vxp {
    use vstd::prelude::*;
    use crate::graph::FileId;
    use crate::work::Work;
    use crate::load::State;
    verus! {
    pub ghost struct PS {
        pub loaded: nat,            // number of successful load::read calls
        pub has_work: bool,         // a Work was built from the latest load
        pub stale: bool,            // some command ran since the latest load (the graph may no longer match the manifest text)
        pub failed: bool,           // some Work::run returned false
        pub ran_ok: bool,           // the latest event is a Work::run that returned true
        pub total: int,             // commands completed successfully, over all Works
        pub valid: Set<FileId>,     // ids obtained from the latest generation (lookups, default targets)
        pub persist: Set<FileId>,   // the manifest's own id (same in every generation: load::read interns it first)
        pub wanted: Set<FileId>,    // want_file'd on the current Work
        pub want_all: bool,
        pub all_excl: Option<FileId>,
        pub defaults: Seq<FileId>,  // `default` targets of the latest generation
        pub resolved: Map<Seq<char>, Option<FileId>>,   // names looked up in the latest generation
        pub mname: Seq<char>,       // manifest file name
        pub adopt: bool,            // options.adopt of the current Work
        pub mstate: int,            // 0 manifest not looked up, 1 unknown to the graph, 2 known (pending), 3 wanted, 4 brought up to date
        pub nman: nat,              // C18: number of files the latest manifest generation names (State::manifest_files); higher ids are log-only
    }
    pub open spec fn ps0() -> PS {
        PS { loaded: 0, has_work: false, stale: false, failed: false, ran_ok: false, total: 0, valid: Set::empty(), persist: Set::empty(),
             wanted: Set::empty(), want_all: false, all_excl: None, defaults: Seq::empty(), resolved: Map::empty(), mname: Seq::empty(), adopt: false, mstate: 0, nman: 0 }
    }
    /// the graph of the current Work may be used: it was built from the latest load and no command ran since
    pub open spec fn usable(h: PS) -> bool { h.has_work && !h.stale && !h.failed }
    /// C18: a requested name the manifest does not know is an error (except in adopt mode): nothing may run after it
    pub open spec fn no_unknown(h: PS) -> bool {
        forall|nm: Seq<char>| #[trigger] h.resolved.contains_key(nm) && h.resolved[nm] is None && nm != h.mname ==> h.adopt
    }
    pub open spec fn known(h: PS, t: FileId) -> bool { h.valid.contains(t) || h.persist.contains(t) }

    #[verifier::external_body]
    pub fn new_ps() -> (r: Ghost<PS>) ensures r@ == ps0() { Ghost::assume_new() }

    // C17: the first load names the manifest; a second load happens only right after the manifest was brought up to date
    // by a run that executed commands, and reads the same file
    #[verifier::external_body]
    pub fn load_read(h: &mut Ghost<PS>, build_filename: &str) -> (r: crate::anyhow::Result<State>)
        requires !old(h)@.failed,
            old(h)@.loaded == 0 || (old(h)@.loaded == 1 && old(h)@.stale && old(h)@.ran_ok && old(h)@.mstate == 4 && build_filename@ == old(h)@.mname),
        ensures match r {
            Ok(s) => final(h)@ == (PS { loaded: old(h)@.loaded + 1, has_work: false, stale: false, ran_ok: false, valid: s.default@.to_set(), wanted: Set::empty(),
                        want_all: false, all_excl: None, defaults: s.default@, resolved: Map::empty(), mname: build_filename@, nman: s.manifest_files as nat, ..old(h)@ })
                     // proved in unit load: the manifest itself and every `default` target are manifest files
                     && s.manifest_files >= 1 && (forall|k: int| 0 <= k < s.default@.len() ==> crate::vx_keys::ix(#[trigger] s.default@[k]) < s.manifest_files),
            Err(_) => final(h)@ == old(h)@ }
    { unimplemented!() }

    #[verifier::external_body]
    pub fn work_new<'a>(h: &mut Ghost<PS>, graph: crate::graph::Graph, last_hashes: crate::graph::Hashes, db: crate::db::Writer,
                    options: &'a crate::work::Options, progress: &'a dyn crate::progress::Progress, pools: crate::smallmap::SmallMap<String, usize>) -> (r: Work<'a>)
        requires old(h)@.loaded > 0, !old(h)@.has_work, !old(h)@.failed,
            // preconditions of Work::run (unit sched): a failure budget of zero would underflow, zero parallelism would stall
            options.failures_left != Some(0usize), options.parallelism >= 1,
        ensures final(h)@ == (PS { has_work: true, adopt: options.adopt, ..old(h)@ }), r.tasks_run == 0,
    { unimplemented!() }

    // C17/C18: names are resolved against the latest generation only
    #[verifier::external_body]
    pub fn lookup(h: &mut Ghost<PS>, work: &Work, name: &str) -> (r: Option<FileId>)
        requires usable(old(h)@),
        ensures final(h)@ == (PS {
                // C18: a name that resolves to a file only the build log knows (id >= nman) counts as unknown
                valid: (match r { Some(t) => if crate::vx_keys::ix(t) < old(h)@.nman { old(h)@.valid.insert(t) } else { old(h)@.valid }, None => old(h)@.valid }),
                resolved: old(h)@.resolved.insert(name@, if r is Some && crate::vx_keys::ix(r.unwrap()) < old(h)@.nman { r } else { None }),
                persist: (if name@ == old(h)@.mname && r is Some { old(h)@.persist.insert(r.unwrap()) } else { old(h)@.persist }),
                mstate: (if name@ == old(h)@.mname && old(h)@.mstate == 0 { if r is Some { 2int } else { 1int } } else { old(h)@.mstate }),
                ..old(h)@ }),
            // load::read interns the manifest first: in every generation its id is the same
            name@ == old(h)@.mname && r is Some && old(h)@.mstate != 0 ==> old(h)@.persist.contains(r.unwrap()),
            name@ == old(h)@.mname && r is Some ==> crate::vx_keys::ix(r.unwrap()) == 0,
            // a lookup is a function of the name within one generation
            old(h)@.resolved.contains_key(name@) ==> r == old(h)@.resolved[name@],
    { unimplemented!() }

    // C17: nothing but the manifest is wanted before the manifest was brought up to date; C18: only ids of this generation
    #[verifier::external_body]
    pub fn want_file(h: &mut Ghost<PS>, work: &mut Work, id: FileId) -> (r: crate::anyhow::Result<()>)
        requires usable(old(h)@), known(old(h)@, id),
            old(h)@.mstate == 1 || old(h)@.mstate == 4 || (old(h)@.mstate == 2 && old(h)@.persist.contains(id)),
            // C18: "A command-line name that occurs nowhere in the (reloaded) manifest is rejected": only files the manifest names are wanted
            crate::vx_keys::ix(id) < old(h)@.nman,
        ensures final(work).tasks_run == old(work).tasks_run,
            match r {
                Ok(_) => final(h)@ == (PS { wanted: old(h)@.wanted.insert(id), ran_ok: false, mstate: (if old(h)@.mstate == 2 { 3int } else { old(h)@.mstate }), ..old(h)@ }),
                Err(_) => final(h)@ == old(h)@ }
    { unimplemented!() }

    #[verifier::external_body]
    pub fn want_every_file(h: &mut Ghost<PS>, work: &mut Work, exclude: Option<FileId>) -> (r: crate::anyhow::Result<()>)
        requires usable(old(h)@), old(h)@.mstate == 1 || old(h)@.mstate == 4,
            exclude is Some ==> old(h)@.persist.contains(exclude.unwrap()),
        ensures final(work).tasks_run == old(work).tasks_run,
            match r {
                Ok(_) => final(h)@ == (PS { want_all: true, all_excl: exclude, ran_ok: false, ..old(h)@ }),
                Err(_) => final(h)@ == old(h)@ }
    { unimplemented!() }

    // C17/C05: no run after a failed run; no run on a graph older than the manifest
    #[verifier::external_body]
    pub fn run(h: &mut Ghost<PS>, work: &mut Work) -> (r: crate::anyhow::Result<bool>)
        requires usable(old(h)@), old(h)@.mstate != 2,
            no_unknown(old(h)@),
        ensures final(work).tasks_run >= old(work).tasks_run, final(work).tasks_run - old(work).tasks_run <= 0xffff_ffff,
            match r {
                Ok(ok) => final(h)@ == (PS { ran_ok: ok, failed: !ok, total: old(h)@.total + (final(work).tasks_run - old(work).tasks_run),
                            stale: final(work).tasks_run > old(work).tasks_run,
                            mstate: (if ok && old(h)@.mstate == 3 { 4int } else { old(h)@.mstate }), ..old(h)@ }),
                Err(_) => final(h)@ == old(h)@ }
    { unimplemented!() }

    /// every requested target was resolved against the latest generation and wanted on the current Work
    pub open spec fn covered(h: PS, targets: Seq<String>, adopt: bool) -> bool {
        if targets.len() > 0 {
            forall|i: int| 0 <= i < targets.len() ==> h.resolved.contains_key(#[trigger] targets[i]@) && (match h.resolved[targets[i]@] {
                Some(t) => h.wanted.contains(t) || (h.persist.contains(t) && h.mstate == 4),
                None => adopt })
        } else if h.defaults.len() > 0 {
            forall|j: int| 0 <= j < h.defaults.len() ==> h.wanted.contains(#[trigger] h.defaults[j])
        } else {
            h.want_all && (h.all_excl is Some ==> h.persist.contains(h.all_excl.unwrap()) && h.mstate == 4)
        }
    }
    // C05/C19: success (Some(n)) only right after a run that returned true, with n = all commands that completed; C18: targets covered
    #[verifier::external_body]
    pub fn ret_some(h: &Ghost<PS>, targets: &Vec<String>, adopt: bool, n: usize) -> (r: Option<usize>)
        requires h@.ran_ok,
            !h@.failed,
            n == h@.total,
            h@.has_work,
            covered(h@, targets@, adopt),
            h@.mstate == 1 || h@.mstate == 4,
        ensures r == Some(n)
    { Some(n) }
    // C05: the failure result only after a run that returned false
    #[verifier::external_body]
    pub fn ret_none(h: &Ghost<PS>) -> (r: Option<usize>)
        requires h@.failed,
        ensures r is None
    { None }
    }
}
// ---- run_impl: the result of build() decides the summary line and the exit status (C05, C19, C03) -----------
pub mod vxq {
    use vstd::prelude::*;
    verus! {
    pub ghost enum Said { Nothing, NoWork, Ran(usize) }
    pub ghost struct QS { pub res: Option<Option<usize>>, pub said: Said }
    #[verifier::external_body]
    pub fn new_qs() -> (r: Ghost<QS>) ensures r@ == (QS { res: None, said: Said::Nothing }) { Ghost::assume_new() }
    /// stands for the call build(args)
    #[verifier::external_body]
    pub fn build(g: &mut Ghost<QS>, args: crate::run::BuildArgs) -> (r: crate::anyhow::Result<Option<usize>>)
        requires old(g)@.res is None,
            // build()'s own precondition (verified there against Work::new's): what parse_args produced
            args.options.failures_left != Some(0usize), args.options.parallelism >= 1,
        ensures match r { Ok(x) => final(g)@ == (QS { res: Some(x), ..old(g)@ }), Err(_) => final(g)@ == old(g)@ }
    { unimplemented!() }
    /// println!("n2: no work to do"): exactly when the build succeeded having run zero commands
    #[verifier::external_body]
    pub fn say_nowork(g: &mut Ghost<QS>)
        requires old(g)@.res == Some(Some(0usize)), old(g)@.said is Nothing
        ensures final(g)@ == (QS { said: Said::NoWork, ..old(g)@ })
    { unimplemented!() }
    /// println!("n2: ran {} task{}, now up to date", n, ..): n is the number of commands build() reported, and not zero
    #[verifier::external_body]
    pub fn say_ran(g: &mut Ghost<QS>, n: usize, plural: &str)
        requires old(g)@.res == Some(Some(n)), n > 0, old(g)@.said is Nothing
        ensures final(g)@ == (QS { said: Said::Ran(n), ..old(g)@ })
    { unimplemented!() }
    /// exit status 0 only for a successful build that printed its summary; status 1 for a failed one, silently
    #[verifier::external_body]
    pub fn exit(g: &Ghost<QS>, code: i32) -> (r: i32)
        requires code == 0 || code == 1,
            code == 0 ==> g@.res is Some && g@.res.unwrap() is Some && !(g@.said is Nothing),
            code == 1 ==> g@.res == Some(None::<usize>) && g@.said is Nothing,
        ensures r == code
    { code }
    }
}


// ---- main.rs protocol ----------------------------------------------------------------------------------------------
pub mod vxm {
    use vstd::prelude::*;
    verus! {
    /// res: None = run() not called yet; Some(None) = it returned Err; Some(Some(c)) = it returned Ok(c)
    pub ghost struct MS { pub res: Option<Option<i32>>, pub said: bool }
    #[verifier::external_body]
    pub fn new_ms() -> (r: Ghost<MS>) ensures r@ == (MS { res: None, said: false }) { Ghost::assume_new() }
    /// stands for n2::run::run()
    #[verifier::external_body]
    pub fn run(g: &mut Ghost<MS>) -> (r: crate::anyhow::Result<i32>)
        requires old(g)@.res is None
        ensures final(g)@ == (MS { res: Some(match r { Ok(c) => Some(c), Err(_) => None }), ..old(g)@ })
    { unimplemented!() }
    /// println!("n2: error: {}", err): exactly when run() failed
    #[verifier::external_body]
    pub fn say_error(g: &mut Ghost<MS>)
        requires old(g)@.res == Some(None::<i32>), !old(g)@.said
        ensures final(g)@ == (MS { said: true, ..old(g)@ })
    { unimplemented!() }
    /// std::process::exit(code): only with a non-zero status, which is run()'s code or 1 after the error was printed
    #[verifier::external_body]
    pub fn exit(g: &Ghost<MS>, code: i32)
        requires code != 0, (match g@.res { Some(Some(c)) => code == c, Some(None) => code == 1 && g@.said, None => false })
        ensures false   // process::exit does not return
    { unimplemented!() }
    }
}
