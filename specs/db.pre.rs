// ---- db unit: trusted wrappers (R9) and std specs --------------------------------------------
verus! {
pub trait VxLeBytes<const N: usize>: Sized {
    spec fn vx_enc(self) -> Seq<u8>;
    spec fn vx_dec(b: Seq<u8>) -> Self;
    fn vx_to_le_bytes(self) -> (r: [u8; N]) ensures r@ == self.vx_enc();
    fn vx_from_le_bytes(b: [u8; N]) -> (r: Self) ensures r == Self::vx_dec(b@);
}
impl VxLeBytes<2> for u16 {
    open spec fn vx_enc(self) -> Seq<u8> { crate::ds::enc_u16(self) }
    open spec fn vx_dec(b: Seq<u8>) -> u16 { crate::ds::dec_u16(b) }
    #[verifier::external_body] fn vx_to_le_bytes(self) -> (r: [u8; 2]) { self.to_le_bytes() }
    #[verifier::external_body] fn vx_from_le_bytes(b: [u8; 2]) -> (r: u16) { u16::from_le_bytes(b) }
}
impl VxLeBytes<4> for u32 {
    open spec fn vx_enc(self) -> Seq<u8> { crate::ds::enc_u32(self) }
    open spec fn vx_dec(b: Seq<u8>) -> u32 { crate::ds::dec_u32(b) }
    #[verifier::external_body] fn vx_to_le_bytes(self) -> (r: [u8; 4]) { self.to_le_bytes() }
    #[verifier::external_body] fn vx_from_le_bytes(b: [u8; 4]) -> (r: u32) { u32::from_le_bytes(b) }
}
impl VxLeBytes<8> for u64 {
    open spec fn vx_enc(self) -> Seq<u8> { crate::ds::enc_u64(self) }
    open spec fn vx_dec(b: Seq<u8>) -> u64 { crate::ds::dec_u64(b) }
    #[verifier::external_body] fn vx_to_le_bytes(self) -> (r: [u8; 8]) { self.to_le_bytes() }
    #[verifier::external_body] fn vx_from_le_bytes(b: [u8; 8]) -> (r: u64) { u64::from_le_bytes(b) }
}
}

pub mod vx_dbkeys {
    use vstd::prelude::*;
    verus! {
    pub broadcast axiom fn ax_ix_dbid(k: crate::db::Id)
        ensures #[trigger] crate::vx_keys::vx_ix(k) == k.0 as usize;
    }
}
verus! {
impl vstd::std_specs::convert::FromSpecImpl<usize> for crate::db::Id {
    open spec fn obeys_from_spec() -> bool { true }
    open spec fn from_spec(v: usize) -> Self { crate::db::Id(v as u32) }
}
}
