// ---- hashing / dirtiness vocabulary (C02 / C03 / C09) ------------------------------------------
// What is fed to the hasher, as a spec-level sequence.  H (finish of a fresh DefaultHasher fed with a sequence) is
// uninterpreted: equal sequences give equal hashes; "no collisions" is an assumption of C02, not of the proofs.
pub mod hs {
    use vstd::prelude::*;
    use crate::graph::*;
    use crate::gs;
    use crate::vx_keys::{vx_ix, ix};
    verus! {
    pub enum Fed {
        Str(Seq<char>),
        Time(std::time::SystemTime),
        Sep,
        Rsp(RspFile),
    }
    pub uninterp spec fn hfed(h: std::collections::hash_map::DefaultHasher) -> Seq<Fed>;
    pub uninterp spec fn hfinish(s: Seq<Fed>) -> u64;
    /// what a Manifest implementation has been fed so far (uninterpreted per implementation; TerseHash: its hasher's feed)
    pub uninterp spec fn mfed<M: ?Sized>(m: &M) -> Seq<Fed>;
    pub broadcast axiom fn ax_mfed_terse(t: crate::hash::TerseHash)
        ensures #[trigger] mfed(&t) == hfed(t.0);

    pub open spec fn fstate(fs: FileState) -> Seq<Option<MTime>> { fs.0.vec@ }
    pub open spec fn fget(fs: FileState, f: FileId) -> Option<MTime> { if ix(f) < fstate(fs).len() { fstate(fs)[ix(f)] } else { None } }
    /// the file has been stat'ed and exists
    pub open spec fn stamped(fs: FileState, f: FileId) -> bool { fget(fs, f) matches Some(MTime::Stamp(_)) }
    pub open spec fn ids_in(files: GraphFiles, s: Seq<FileId>) -> bool { forall|j: int| 0 <= j < s.len() ==> ix(#[trigger] s[j]) < files.by_id.vec@.len() }
    pub open spec fn all_stamped(fs: FileState, s: Seq<FileId>) -> bool { forall|j: int| 0 <= j < s.len() ==> stamped(fs, #[trigger] s[j]) }
    /// state already gathered is never changed by looking at more files
    pub open spec fn fs_mono(a: FileState, b: FileState) -> bool { forall|f: FileId| #[trigger] fget(a, f) is Some ==> fget(b, f) == fget(a, f) }
    pub open spec fn all_stated(fs: FileState, s: Seq<FileId>) -> bool { forall|j: int| 0 <= j < s.len() ==> fget(fs, #[trigger] s[j]) is Some }
    pub open spec fn is_missing(fs: FileState, f: FileId) -> bool { fget(fs, f) == Some(MTime::Missing) }
    /// the files a step's signature covers
    pub open spec fn covered(b: Build, f: FileId) -> bool { gs::dirtying_ins(b).contains(f) || b.discovered_ins@.contains(f) || b.outs.ids@.contains(f) }
    pub open spec fn phony(b: Build) -> bool { b.cmdline is None }
    pub open spec fn stamp_of(fs: FileState, f: FileId) -> std::time::SystemTime { match fget(fs, f) { Some(MTime::Stamp(t)) => t, _ => arbitrary() } }
    /// name and mtime of each listed file, in order
    pub open spec fn files_fed(files: GraphFiles, fs: FileState, s: Seq<FileId>) -> Seq<Fed>
        decreases s.len()
    {
        if s.len() == 0 { Seq::empty() } else {
            files_fed(files, fs, s.drop_last()) + seq![Fed::Str(files.by_id.vec@[ix(s.last())].name@), Fed::Time(stamp_of(fs, s.last()))]
        }
    }
    /// C02/C03: exactly what a step's up-to-date signature covers, in this order: dirtying inputs (explicit + implicit),
    /// discovered dependencies, the command line, the response file (path and content), the outputs -- names and mtimes.
    pub open spec fn cmd_of(b: Build) -> Seq<char> { match b.cmdline { Some(c) => c@, None => Seq::<char>::empty() } }
    pub open spec fn rsp_fed(b: Build) -> Seq<Fed> { match b.rspfile { Some(r) => seq![Fed::Rsp(r)], None => Seq::<Fed>::empty() } }
    pub open spec fn manifest(files: GraphFiles, fs: FileState, b: Build) -> Seq<Fed> {
        files_fed(files, fs, gs::dirtying_ins(b)) + seq![Fed::Sep]
        + files_fed(files, fs, b.discovered_ins@) + seq![Fed::Sep]
        + seq![Fed::Str(cmd_of(b)), Fed::Sep]
        + rsp_fed(b)
        + files_fed(files, fs, b.outs.ids@) + seq![Fed::Sep]
    }
    }
}
