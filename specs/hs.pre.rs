// ---- hashing / dirtiness vocabulary (C02 / C03 / C09) ------------------------------------------
// What is fed to the hasher, as a spec-level sequence.  H (finish of a fresh DefaultHasher fed with a sequence) is
// uninterpreted: equal sequences give equal hashes; "no collisions" is an assumption of C02, not of the proofs.
pub mod hs {
    use vstd::prelude::*;
    use crate::graph::*;
    use crate::gs;
    use crate::vx_keys::{vx_ix, ix};
    verus! {
    pub enum Fed {
        Str(Seq<char>),
        Time(std::time::SystemTime),
        Sep,
        Rsp(RspFile),
        /// anything else a changed hash.rs might feed (ids, integers): never part of the specified manifest
        Num(int),
    }
    pub uninterp spec fn hfed(h: std::collections::hash_map::DefaultHasher) -> Seq<Fed>;
    pub uninterp spec fn hfinish(s: Seq<Fed>) -> u64;
    /// what a Manifest implementation has been fed so far (uninterpreted per implementation; TerseHash: its hasher's feed)
    pub uninterp spec fn mfed<M: ?Sized>(m: &M) -> Seq<Fed>;
    pub broadcast axiom fn ax_mfed_terse(t: crate::hash::TerseHash)
        ensures #[trigger] mfed(&t) == hfed(t.0);

    pub open spec fn fstate(fs: FileState) -> Seq<Option<MTime>> { fs.0.vec@ }
    pub open spec fn fget(fs: FileState, f: FileId) -> Option<MTime> { if ix(f) < fstate(fs).len() { fstate(fs)[ix(f)] } else { None } }
    /// the file has been stat'ed and exists
    pub open spec fn stamped(fs: FileState, f: FileId) -> bool { fget(fs, f) matches Some(MTime::Stamp(_)) }
    pub open spec fn ids_in(files: GraphFiles, s: Seq<FileId>) -> bool { forall|j: int| 0 <= j < s.len() ==> ix(#[trigger] s[j]) < files.by_id.vec@.len() }
    pub open spec fn all_stamped(fs: FileState, s: Seq<FileId>) -> bool { forall|j: int| 0 <= j < s.len() ==> stamped(fs, #[trigger] s[j]) }
    /// state already gathered is never changed by looking at more files
    pub open spec fn fs_mono(a: FileState, b: FileState) -> bool { forall|f: FileId| #[trigger] fget(a, f) is Some ==> fget(b, f) == fget(a, f) }
    pub open spec fn all_stated(fs: FileState, s: Seq<FileId>) -> bool { forall|j: int| 0 <= j < s.len() ==> fget(fs, #[trigger] s[j]) is Some }
    pub open spec fn is_missing(fs: FileState, f: FileId) -> bool { fget(fs, f) == Some(MTime::Missing) }
    /// the files a step's signature covers
    pub open spec fn covered(b: Build, f: FileId) -> bool { gs::dirtying_ins(b).contains(f) || b.discovered_ins@.contains(f) || b.outs.ids@.contains(f) }
    pub open spec fn phony(b: Build) -> bool { b.cmdline is None }
    pub open spec fn stamp_of(fs: FileState, f: FileId) -> std::time::SystemTime { match fget(fs, f) { Some(MTime::Stamp(t)) => t, _ => arbitrary() } }
    /// name and mtime of each listed file, in order
    pub open spec fn files_fed(files: GraphFiles, fs: FileState, s: Seq<FileId>) -> Seq<Fed>
        decreases s.len()
    {
        if s.len() == 0 { Seq::empty() } else {
            files_fed(files, fs, s.drop_last()) + seq![Fed::Str(files.by_id.vec@[ix(s.last())].name@), Fed::Time(stamp_of(fs, s.last()))]
        }
    }
    /// C02/C03: exactly what a step's up-to-date signature covers, in this order: dirtying inputs (explicit + implicit),
    /// discovered dependencies, the command line, the response file (path and content), the outputs -- names and mtimes.
    pub open spec fn cmd_of(b: Build) -> Seq<char> { match b.cmdline { Some(c) => c@, None => Seq::<char>::empty() } }
    pub open spec fn rsp_fed(b: Build) -> Seq<Fed> { match b.rspfile { Some(r) => seq![Fed::Rsp(r)], None => Seq::<Fed>::empty() } }
    pub open spec fn manifest(files: GraphFiles, fs: FileState, b: Build) -> Seq<Fed> {
        files_fed(files, fs, gs::dirtying_ins(b)) + seq![Fed::Sep]
        + files_fed(files, fs, b.discovered_ins@) + seq![Fed::Sep]
        + seq![Fed::Str(cmd_of(b)), Fed::Sep]
        + rsp_fed(b)
        + files_fed(files, fs, b.outs.ids@) + seq![Fed::Sep]
    }

    /// the manifest written in the order of the calls (left-nested), starting from what was fed before
    pub open spec fn manifest_from(m0: Seq<Fed>, files: GraphFiles, fs: FileState, b: Build) -> Seq<Fed> {
        let m1 = m0 + files_fed(files, fs, gs::dirtying_ins(b)) + seq![Fed::Sep];
        let m2 = m1 + files_fed(files, fs, b.discovered_ins@) + seq![Fed::Sep];
        let m3 = m2.push(Fed::Str(cmd_of(b))).push(Fed::Sep);
        let m4 = match b.rspfile { Some(r) => m3.push(Fed::Rsp(r)), None => m3 };
        m4 + files_fed(files, fs, b.outs.ids@) + seq![Fed::Sep]
    }
    pub proof fn lemma_manifest_from(m0: Seq<Fed>, files: GraphFiles, fs: FileState, b: Build)
        ensures manifest_from(m0, files, fs, b) =~= m0 + manifest(files, fs, b)
    {
        let a = files_fed(files, fs, gs::dirtying_ins(b)) + seq![Fed::Sep];
        let bb = files_fed(files, fs, b.discovered_ins@) + seq![Fed::Sep];
        let c = seq![Fed::Str(cmd_of(b)), Fed::Sep];
        let d = rsp_fed(b);
        let e = files_fed(files, fs, b.outs.ids@) + seq![Fed::Sep];
        let m1 = m0 + files_fed(files, fs, gs::dirtying_ins(b)) + seq![Fed::Sep];
        let m2 = m1 + files_fed(files, fs, b.discovered_ins@) + seq![Fed::Sep];
        let m3 = m2.push(Fed::Str(cmd_of(b))).push(Fed::Sep);
        let m4 = match b.rspfile { Some(r) => m3.push(Fed::Rsp(r)), None => m3 };
        assert(m1 =~= m0 + a);
        assert(m2 =~= m0 + a + bb);
        assert(m3 =~= m0 + a + bb + c);
        assert(m4 =~= m0 + a + bb + c + d);
        assert(manifest_from(m0, files, fs, b) =~= m0 + a + bb + c + d + e);
        assert(manifest(files, fs, b) =~= a + bb + c + d + e);
        assert(m0 + a + bb + c + d + e =~= m0 + (a + bb + c + d + e));
    }
    pub open spec fn names_of(o: Option<Vec<String>>) -> Seq<String> { match o { Some(v) => v@, None => Seq::<String>::empty() } }
    // --- C09: the discovered list a finished command leaves behind.  It is a function of the report alone
    //     (ids, in report order) and of the declared dirtying inputs di -- the previous list does not occur.
    pub open spec fn disc_list(ids: Seq<FileId>, di: Seq<FileId>) -> Seq<FileId> decreases ids.len() {
        if ids.len() == 0 { Seq::<FileId>::empty() } else {
            let p = disc_list(ids.drop_last(), di);
            let x = ids.last();
            if p.contains(x) || di.contains(x) { p } else { p.push(x) }
        }
    }
    pub proof fn lemma_disc_step(ids: Seq<FileId>, x: FileId, di: Seq<FileId>)
        ensures disc_list(ids.push(x), di) == (if disc_list(ids, di).contains(x) || di.contains(x) { disc_list(ids, di) } else { disc_list(ids, di).push(x) })
    {
        assert(ids.push(x).drop_last() =~= ids);
        assert(ids.push(x).last() == x);
    }
    /// every reported file is either listed or a declared dirtying input; nothing else is listed; no duplicates
    pub proof fn lemma_disc_list(ids: Seq<FileId>, di: Seq<FileId>)
        ensures gs::no_dup(disc_list(ids, di)),
            forall|f: FileId| #[trigger] disc_list(ids, di).contains(f) <==> ids.contains(f) && !di.contains(f),
        decreases ids.len()
    {
        if ids.len() > 0 {
            let p = disc_list(ids.drop_last(), di);
            let x = ids.last();
            lemma_disc_list(ids.drop_last(), di);
            assert forall|f: FileId| #[trigger] disc_list(ids, di).contains(f) <==> ids.contains(f) && !di.contains(f) by {
                if ids.contains(f) {
                    let j = choose|j: int| 0 <= j < ids.len() && ids[j] == f;
                    if j < ids.len() - 1 { assert(ids.drop_last()[j] == f); assert(ids.drop_last().contains(f)); }
                }
                if ids.drop_last().contains(f) {
                    let j = choose|j: int| 0 <= j < ids.drop_last().len() && ids.drop_last()[j] == f;
                    assert(ids[j] == f);
                }
                if !(p.contains(x) || di.contains(x)) {
                    if p.push(x).contains(f) {
                        let j = choose|j: int| 0 <= j < p.push(x).len() && p.push(x)[j] == f;
                        if j < p.len() { assert(p[j] == f); assert(p.contains(f)); }
                    }
                    if p.contains(f) { let j = choose|j: int| 0 <= j < p.len() && p[j] == f; assert(p.push(x)[j] == f); }
                    if f == x { assert(p.push(x)[p.len() as int] == x); assert(ids[ids.len() - 1] == x); }
                } else {
                    if f == x { assert(ids[ids.len() - 1] == x); }
                }
            }
            if !(p.contains(x) || di.contains(x)) { gs::lemma_no_dup_push(p, x); }
        }
    }

    // --- C02: the signature's pre-image is unambiguous.  Under the no-collision assumption (hfinish injective) equal
    //     signatures mean: same names and mtimes of the dirtying inputs, of the discovered deps and of the outputs, same
    //     command line, same response file.  So a step is skipped only if none of these changed since the record.
    pub open spec fn nosep(s: Seq<Fed>) -> bool { forall|i: int| 0 <= i < s.len() ==> !(#[trigger] s[i] is Sep) }
    pub proof fn lemma_files_fed_shape(files: GraphFiles, fs: FileState, ids: Seq<FileId>)
        ensures nosep(files_fed(files, fs, ids)), files_fed(files, fs, ids).len() == 2 * ids.len(),
            forall|k: int| 0 <= k < ids.len() ==> #[trigger] files_fed(files, fs, ids)[2 * k] == Fed::Str(files.by_id.vec@[ix(ids[k])].name@)
                && files_fed(files, fs, ids)[2 * k + 1] == Fed::Time(stamp_of(fs, ids[k])),
        decreases ids.len()
    {
        if ids.len() > 0 {
            lemma_files_fed_shape(files, fs, ids.drop_last());
            let p = files_fed(files, fs, ids.drop_last());
            let f = files_fed(files, fs, ids);
            assert forall|k: int| 0 <= k < ids.len() implies #[trigger] f[2 * k] == Fed::Str(files.by_id.vec@[ix(ids[k])].name@)
                && f[2 * k + 1] == Fed::Time(stamp_of(fs, ids[k])) by {
                if k < ids.len() - 1 { assert(f[2 * k] == p[2 * k]); assert(f[2 * k + 1] == p[2 * k + 1]); assert(ids.drop_last()[k] == ids[k]); }
            }
        }
    }
    pub proof fn lemma_split_at_sep(a: Seq<Fed>, r: Seq<Fed>, a2: Seq<Fed>, r2: Seq<Fed>)
        requires nosep(a), nosep(a2), a + seq![Fed::Sep] + r == a2 + seq![Fed::Sep] + r2
        ensures a == a2, r == r2
    {
        let l = a + seq![Fed::Sep] + r;
        let l2 = a2 + seq![Fed::Sep] + r2;
        if a.len() < a2.len() { assert(l[a.len() as int] is Sep); assert(l2[a.len() as int] == a2[a.len() as int]); }
        if a2.len() < a.len() { assert(l2[a2.len() as int] is Sep); assert(l[a2.len() as int] == a[a2.len() as int]); }
        assert(a =~= a2) by { assert forall|i: int| 0 <= i < a.len() implies a[i] == a2[i] by { assert(l[i] == a[i]); assert(l2[i] == a2[i]); } }
        assert(r =~= r2) by {
            assert(l.len() == l2.len());
            assert forall|i: int| 0 <= i < r.len() implies r[i] == r2[i] by { assert(l[a.len() + 1 + i] == r[i]); assert(l2[a2.len() + 1 + i] == r2[i]); }
        }
    }
    /// what the signature pins down
    pub open spec fn same_inputs(f1: GraphFiles, s1: FileState, b1: Build, f2: GraphFiles, s2: FileState, b2: Build) -> bool {
        files_fed(f1, s1, gs::dirtying_ins(b1)) == files_fed(f2, s2, gs::dirtying_ins(b2))
        && files_fed(f1, s1, b1.discovered_ins@) == files_fed(f2, s2, b2.discovered_ins@)
        && cmd_of(b1) == cmd_of(b2) && b1.rspfile == b2.rspfile
        && files_fed(f1, s1, b1.outs.ids@) == files_fed(f2, s2, b2.outs.ids@)
    }
    pub proof fn lemma_manifest_inj(f1: GraphFiles, s1: FileState, b1: Build, f2: GraphFiles, s2: FileState, b2: Build)
        requires manifest(f1, s1, b1) == manifest(f2, s2, b2)
        ensures same_inputs(f1, s1, b1, f2, s2, b2)
    {
        let (a, b, c) = (files_fed(f1, s1, gs::dirtying_ins(b1)), files_fed(f1, s1, b1.discovered_ins@), files_fed(f1, s1, b1.outs.ids@));
        let (a2, bb2, c2) = (files_fed(f2, s2, gs::dirtying_ins(b2)), files_fed(f2, s2, b2.discovered_ins@), files_fed(f2, s2, b2.outs.ids@));
        lemma_files_fed_shape(f1, s1, gs::dirtying_ins(b1)); lemma_files_fed_shape(f1, s1, b1.discovered_ins@); lemma_files_fed_shape(f1, s1, b1.outs.ids@);
        lemma_files_fed_shape(f2, s2, gs::dirtying_ins(b2)); lemma_files_fed_shape(f2, s2, b2.discovered_ins@); lemma_files_fed_shape(f2, s2, b2.outs.ids@);
        let sep = seq![Fed::Sep];
        let t1 = seq![Fed::Str(cmd_of(b1)), Fed::Sep] + rsp_fed(b1) + c + sep;
        let t2 = seq![Fed::Str(cmd_of(b2)), Fed::Sep] + rsp_fed(b2) + c2 + sep;
        let r1 = b + sep + t1;
        let r2 = bb2 + sep + t2;
        assert(manifest(f1, s1, b1) =~= a + sep + r1);
        assert(manifest(f2, s2, b2) =~= a2 + sep + r2);
        lemma_split_at_sep(a, r1, a2, r2);
        lemma_split_at_sep(b, t1, bb2, t2);
        // t = [Str(cmd), Sep] ++ rsp ++ c ++ [Sep]
        assert(t1[0] == Fed::Str(cmd_of(b1)) && t2[0] == Fed::Str(cmd_of(b2)));
        let u1 = rsp_fed(b1) + c + sep;
        let u2 = rsp_fed(b2) + c2 + sep;
        assert(u1 =~= t1.skip(2)); assert(u2 =~= t2.skip(2));
        // the response file: an Rsp item can only be the optional first element of u
        if b1.rspfile is Some && b2.rspfile is Some {
            assert(u1[0] == Fed::Rsp(b1.rspfile->Some_0)); assert(u2[0] == Fed::Rsp(b2.rspfile->Some_0));
            assert((c + sep) =~= u1.skip(1)); assert((c2 + sep) =~= u2.skip(1));
        } else if b1.rspfile is None && b2.rspfile is None {
            assert((c + sep) =~= u1); assert((c2 + sep) =~= u2);
        } else if b1.rspfile is Some {
            assert(u1[0] == Fed::Rsp(b1.rspfile->Some_0));
            assert(u2[0] == (c2 + sep)[0]);
            if c2.len() > 0 { assert(u2[0] == c2[0]); assert(c2[0] == c2[2 * 0int]); assert(b2.outs.ids@.len() > 0); } else { assert(u2[0] is Sep); }
            assert(false);
        } else {
            assert(u2[0] == Fed::Rsp(b2.rspfile->Some_0));
            assert(u1[0] == (c + sep)[0]);
            if c.len() > 0 { assert(u1[0] == c[0]); assert(c[0] == c[2 * 0int]); assert(b1.outs.ids@.len() > 0); } else { assert(u1[0] is Sep); }
            assert(false);
        }
        lemma_split_at_sep(c, Seq::<Fed>::empty(), c2, Seq::<Fed>::empty());
    }

    /// equal fed lists = same number of files with the same names and the same mtimes, position by position
    pub proof fn lemma_files_fed_eq(f1: GraphFiles, s1: FileState, ids1: Seq<FileId>, f2: GraphFiles, s2: FileState, ids2: Seq<FileId>)
        requires files_fed(f1, s1, ids1) == files_fed(f2, s2, ids2)
        ensures ids1.len() == ids2.len(),
            forall|k: int| 0 <= k < ids1.len() ==> f1.by_id.vec@[ix(#[trigger] ids1[k])].name@ == f2.by_id.vec@[ix(ids2[k])].name@
                && stamp_of(s1, ids1[k]) == stamp_of(s2, ids2[k]),
    {
        lemma_files_fed_shape(f1, s1, ids1);
        lemma_files_fed_shape(f2, s2, ids2);
        let a = files_fed(f1, s1, ids1);
        let b = files_fed(f2, s2, ids2);
        assert forall|k: int| 0 <= k < ids1.len() implies f1.by_id.vec@[ix(#[trigger] ids1[k])].name@ == f2.by_id.vec@[ix(ids2[k])].name@
                && stamp_of(s1, ids1[k]) == stamp_of(s2, ids2[k]) by {
            assert(a[2 * k] == b[2 * k]); assert(a[2 * k + 1] == b[2 * k + 1]);
        }
    }
    /// C02 in one sentence, under the no-collision assumption: if the recorded signature equals the current one, nothing the
    /// signature covers has changed since the record
    pub proof fn lemma_equal_signature(f1: GraphFiles, s1: FileState, b1: Build, f2: GraphFiles, s2: FileState, b2: Build)
        requires forall|x: Seq<Fed>, y: Seq<Fed>| #[trigger] hfinish(x) == #[trigger] hfinish(y) ==> x == y,
            hfinish(manifest(f1, s1, b1)) == hfinish(manifest(f2, s2, b2))
        ensures same_inputs(f1, s1, b1, f2, s2, b2)
    {
        lemma_manifest_inj(f1, s1, b1, f2, s2, b2);
    }
    }
}
