// ---- eval unit (C11): spec vocabulary -----------------------------------------------------------------
// R17: the external trait bound `T: AsRef<str>` is replaced by the local trait VxAsStr (same three carrier types,
// `as_ref()` renamed to `vx_str()`), whose contract says the &str returned has the carrier's characters.
verus! {
pub trait VxAsStr {
    spec fn sv(&self) -> Seq<char>;
    fn vx_str(&self) -> (r: &str) ensures r@ == self.sv();
}
impl VxAsStr for &str {
    open spec fn sv(&self) -> Seq<char> { (*self)@ }
    #[verifier::external_body] fn vx_str(&self) -> (r: &str) { self }
}
impl VxAsStr for String {
    open spec fn sv(&self) -> Seq<char> { self@ }
    #[verifier::external_body] fn vx_str(&self) -> (r: &str) { self.as_ref() }
}
pub uninterp spec fn cow_view(c: std::borrow::Cow<'_, str>) -> Seq<char>;
impl<'a> VxAsStr for std::borrow::Cow<'a, str> {
    open spec fn sv(&self) -> Seq<char> { cow_view(*self) }
    #[verifier::external_body] fn vx_str(&self) -> (r: &str) { self.as_ref() }
}
pub assume_specification [std::string::String::reserve] (s: &mut std::string::String, additional: usize)
    ensures final(s)@ == old(s)@;
pub trait VxPushStr { fn vx_push_chars(&mut self, s: &str); }
impl VxPushStr for String {
    #[verifier::external_body] fn vx_push_chars(&mut self, s: &str) ensures final(self)@ == old(self)@ + s@ { self.push_str(s) }
}
}
pub mod ev {
    use vstd::prelude::*;
    use crate::eval::*;
    use crate::VxAsStr;
    verus! {
    pub enum Part { Lit(Seq<char>), Ref(Seq<char>) }
    pub open spec fn part_view<T: VxAsStr>(p: EvalPart<T>) -> Part {
        match p { EvalPart::Literal(s) => Part::Lit(s.sv()), EvalPart::VarRef(s) => Part::Ref(s.sv()) }
    }
    pub open spec fn parts_view<T: VxAsStr>(ps: Seq<EvalPart<T>>) -> Seq<Part> { Seq::new(ps.len(), |i: int| part_view(ps[i])) }
    /// what one environment binds a name to (uninterpreted per implementation; each impl's get_var is specified against it)
    pub uninterp spec fn binds<E: ?Sized>(e: &E, var: Seq<char>) -> Option<Seq<Part>>;

    /// the trait object for an environment (unsizing coercion, as in `&[&b.vars, env]`)
    pub open spec fn dynenv<E: Env>(e: &E) -> &dyn Env { e }
    // C11: "first env that binds the name wins, nested references continue in the following envs only;
    //       undefined variables expand to the empty string"
    pub open spec fn eval(parts: Seq<Part>, envs: Seq<&dyn Env>) -> Seq<char>
        decreases envs.len(), 1int, parts.len()
    {
        if parts.len() == 0 { Seq::<char>::empty() } else {
            eval(parts.drop_last(), envs) + (match parts.last() {
                Part::Lit(s) => s,
                Part::Ref(v) => lookup(v, envs, 0) })
        }
    }
    pub open spec fn lookup(v: Seq<char>, envs: Seq<&dyn Env>, i: int) -> Seq<char>
        decreases envs.len(), 0int, envs.len() - i
    {
        if i < 0 || i >= envs.len() { Seq::<char>::empty() } else {
            match binds(envs[i], v) {
                Some(val) => eval(val, envs.subrange(i + 1, envs.len() as int)),
                None => lookup(v, envs, i + 1) }
        }
    }
    /// well-formedness an environment needs for get_var (true for the map-like ones; BuildImplicitVars needs valid ids)
    pub uninterp spec fn env_ok<E: ?Sized>(e: &E) -> bool;
    pub open spec fn envs_ok(envs: Seq<&dyn Env>) -> bool { forall|i: int| 0 <= i < envs.len() ==> env_ok(#[trigger] envs[i]) }
    /// TRUSTED (dynamic dispatch): calling get_var through `&dyn Env` runs the implementation of the concrete type
    pub broadcast axiom fn ax_dyn_vars(e: &Vars, var: Seq<char>)
        ensures #[trigger] binds::<dyn Env>(dynenv(e), var) == binds(e, var);
    pub broadcast axiom fn ax_dyn_vars_ok(e: &Vars) ensures #[trigger] env_ok::<dyn Env>(dynenv(e)) == env_ok(e);
    pub broadcast axiom fn ax_env_ok_vars(v: &Vars)
        ensures #[trigger] env_ok(v);
    pub broadcast axiom fn ax_cow_owned(s: String)
        ensures #[trigger] crate::cow_view(std::borrow::Cow::Owned(s)) == s@;
    pub broadcast proof fn lemma_parts_view_one<T: VxAsStr>(p: EvalPart<T>)
        ensures #[trigger] parts_view(seq![p]) == seq![part_view(p)]
    {
        assert(parts_view(seq![p]) =~= seq![part_view(p)]);
    }
    // --- the file-level scope `Vars` (a hash map name -> expanded value)
    pub uninterp spec fn vars_map(v: Vars) -> Map<Seq<char>, Seq<char>>;
    pub open spec fn vars_binds(v: Vars, var: Seq<char>) -> Option<Seq<Part>> {
        if vars_map(v).contains_key(var) { Some(seq![Part::Lit(vars_map(v)[var])]) } else { None }
    }
    /// TRUSTED: definition of `binds` for Vars, and Cow::Borrowed(s) has the characters of s
    pub broadcast axiom fn ax_binds_vars(v: &Vars, var: Seq<char>)
        ensures #[trigger] binds(v, var) == vars_binds(*v, var);
    pub broadcast axiom fn ax_cow_borrowed(s: &str)
        ensures #[trigger] crate::cow_view(std::borrow::Cow::Borrowed(s)) == s@;
    /// the file scope after the top-level definitions `defs` (name, expanded value) were read in order: later ones win
    pub open spec fn apply_defs(m: Map<Seq<char>, Seq<char>>, defs: Seq<(Seq<char>, Seq<char>)>) -> Map<Seq<char>, Seq<char>>
        decreases defs.len()
    {
        if defs.len() == 0 { m } else { apply_defs(m, defs.drop_last()).insert(defs.last().0, defs.last().1) }
    }
    pub proof fn lemma_apply_push(m: Map<Seq<char>, Seq<char>>, defs: Seq<(Seq<char>, Seq<char>)>, d: (Seq<char>, Seq<char>))
        ensures apply_defs(m, defs.push(d)) == apply_defs(m, defs).insert(d.0, d.1)
    {
        assert(defs.push(d).drop_last() =~= defs);
    }
    // --- iterating a Vars (Parser::inherit): the entries in iteration order, as (name, value) character sequences
    pub uninterp spec fn pairs_seq(v: Vars) -> Seq<(Seq<char>, Seq<char>)>;
    pub open spec fn pair_view(p: (&&str, &String)) -> (Seq<char>, Seq<char>) { ((*p.0)@, p.1@) }
    pub open spec fn pairs_view(ps: Seq<(&&str, &String)>) -> Seq<(Seq<char>, Seq<char>)> { Seq::new(ps.len(), |i: int| pair_view(ps[i])) }
    /// ps lists exactly the entries of m
    pub open spec fn pairs_of(ps: Seq<(Seq<char>, Seq<char>)>, m: Map<Seq<char>, Seq<char>>) -> bool {
        (forall|i: int| 0 <= i < ps.len() ==> m.contains_key(#[trigger] ps[i].0) && m[ps[i].0] == ps[i].1)
        && (forall|k: Seq<char>| m.contains_key(k) ==> exists|i: int| 0 <= i < ps.len() && #[trigger] ps[i].0 == k)
    }
    pub open spec fn ins_pairs(m: Map<Seq<char>, Seq<char>>, ps: Seq<(Seq<char>, Seq<char>)>, k: int) -> Map<Seq<char>, Seq<char>>
        decreases k
    {
        if k <= 0 { m } else { ins_pairs(m, ps, k - 1).insert(ps[k - 1].0, ps[k - 1].1) }
    }
    pub proof fn lemma_ins_pairs(m: Map<Seq<char>, Seq<char>>, ps: Seq<(Seq<char>, Seq<char>)>, fm: Map<Seq<char>, Seq<char>>, k: int, x: Seq<char>)
        requires 0 <= k <= ps.len(), forall|i: int| 0 <= i < ps.len() ==> fm.contains_key(#[trigger] ps[i].0) && fm[ps[i].0] == ps[i].1
        ensures ins_pairs(m, ps, k).contains_key(x) == (m.contains_key(x) || exists|i: int| 0 <= i < k && #[trigger] ps[i].0 == x),
            (exists|i: int| 0 <= i < k && #[trigger] ps[i].0 == x) ==> ins_pairs(m, ps, k)[x] == fm[x],
            !(exists|i: int| 0 <= i < k && #[trigger] ps[i].0 == x) && m.contains_key(x) ==> ins_pairs(m, ps, k)[x] == m[x],
        decreases k
    {
        if k > 0 {
            lemma_ins_pairs(m, ps, fm, k - 1, x);
            if ps[k - 1].0 == x {
            } else {
                if exists|i: int| 0 <= i < k && #[trigger] ps[i].0 == x {
                    let i = choose|i: int| 0 <= i < k && #[trigger] ps[i].0 == x;
                    assert(0 <= i < k - 1 && ps[i].0 == x);
                }
            }
        }
    }
    pub proof fn lemma_ins_pairs_all(m: Map<Seq<char>, Seq<char>>, ps: Seq<(Seq<char>, Seq<char>)>, fm: Map<Seq<char>, Seq<char>>)
        requires pairs_of(ps, fm)
        ensures ins_pairs(m, ps, ps.len() as int) == m.union_prefer_right(fm)
    {
        let a = ins_pairs(m, ps, ps.len() as int);
        let b = m.union_prefer_right(fm);
        assert forall|x: Seq<char>| #[trigger] a.contains_key(x) == b.contains_key(x) && (a.contains_key(x) ==> a[x] == b[x]) by {
            lemma_ins_pairs(m, ps, fm, ps.len() as int, x);
            if fm.contains_key(x) {
                let i = choose|i: int| 0 <= i < ps.len() && #[trigger] ps[i].0 == x;
                assert(0 <= i < ps.len() && ps[i].0 == x);
            } else {
                if exists|i: int| 0 <= i < ps.len() && #[trigger] ps[i].0 == x {
                    let i = choose|i: int| 0 <= i < ps.len() && #[trigger] ps[i].0 == x;
                    assert(fm.contains_key(ps[i].0));
                }
            }
        }
        assert(a.dom() =~= b.dom());
        assert(a =~= b);
    }
    pub proof fn lemma_lookup_skip(v: Seq<char>, envs: Seq<&dyn Env>, a: int, i: int)
        requires 0 <= a <= i <= envs.len(), forall|j: int| a <= j < i ==> binds(#[trigger] envs[j], v) is None
        ensures lookup(v, envs, a) == lookup(v, envs, i)
        decreases i - a
    {
        if a < i { lemma_lookup_skip(v, envs, a + 1, i); }
    }
    pub proof fn lemma_eval_push(parts: Seq<Part>, k: int, envs: Seq<&dyn Env>)
        requires 0 <= k < parts.len()
        ensures eval(parts.subrange(0, k + 1), envs) == eval(parts.subrange(0, k), envs) + (match parts[k] {
                Part::Lit(s) => s, Part::Ref(v) => lookup(v, envs, 0) })
    {
        assert(parts.subrange(0, k + 1).drop_last() =~= parts.subrange(0, k));
    }
    }
}
