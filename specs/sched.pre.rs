// ---- sched unit: extra trusted std specs -------------------------------------------------
verus! {
// derive(PartialEq) on BuildState is structural equality (trusted: definition of the derive)
impl vstd::std_specs::cmp::PartialEqSpecImpl for crate::work::BuildState {
    open spec fn obeys_eq_spec() -> bool { true }
    open spec fn eq_spec(&self, other: &crate::work::BuildState) -> bool { *self == *other }
}
}
