// ---- sched unit: extra trusted std specs -------------------------------------------------
verus! {
// derive(PartialEq) on BuildState is structural equality (trusted: definition of the derive)
impl vstd::std_specs::cmp::PartialEqSpecImpl for crate::work::BuildState {
    open spec fn obeys_eq_spec() -> bool { true }
    open spec fn eq_spec(&self, other: &crate::work::BuildState) -> bool { *self == *other }
}
}

verus! {
/// R9 wrapper for String::from(&str)
#[verifier::external_body]
pub fn vx_string_from(s: &str) -> (r: String) ensures r@ == s@ { String::from(s) }
}

// ---- R7-style shim: std::collections::HashSet as used by Work::ready_dependents ------------
// The wrapper holds the real std HashSet; `insert` delegates to it; `into_iter` yields the real
// iteration order (arbitrary): its contract only says "each element once".  Trusted model.
pub mod vx_set {
    use vstd::prelude::*;
    use vstd::std_specs::iter::IteratorSpec;
    verus! {
    #[verifier::external_body]
    #[verifier::reject_recursive_types(T)]
    pub struct HashSet<T> { inner: std::collections::HashSet<T> }
    impl<T: std::hash::Hash + Eq> HashSet<T> {
        pub uninterp spec fn view(&self) -> Set<T>;
        /// the order in which iteration yields the elements (some function of the set's state; nothing is assumed about it)
        pub uninterp spec fn order(&self) -> Seq<T>;
        #[verifier::external_body]
        pub fn new() -> (r: Self) ensures r@ == Set::<T>::empty() { HashSet { inner: std::collections::HashSet::new() } }
        #[verifier::external_body]
        pub fn insert(&mut self, v: T) -> (r: bool) ensures final(self)@ == old(self)@.insert(v) { self.inner.insert(v) }
        /// TRUSTED: iteration yields exactly the members, each once
        pub axiom fn lemma_order(&self)
            ensures forall|x: T| #[trigger] self.order().contains(x) == self@.contains(x),
                forall|i: int, j: int| 0 <= i < j < self.order().len() ==> self.order()[i] != self.order()[j];
        /// consumed as `for id in set`: R12 turns that into IntoIterator::into_iter(set)
        #[verifier::external_body]
        pub fn vx_into_vec(self) -> (r: Vec<T>)
            ensures r@ == self.order(), forall|x: T| #[trigger] r@.contains(x) == self@.contains(x),
                    forall|i: int, j: int| 0 <= i < j < r@.len() ==> r@[i] != r@[j]
        { self.inner.into_iter().collect() }
    }
    /// what the liveness hints of Work::ready_dependents need from the collection of dependents, whatever its type
    /// (so that a change of the collection type is judged by the obligations, not rejected by the type checker)
    pub trait VxColl<T> {
        spec fn vx_members(&self) -> Set<T>;
        spec fn vx_order(&self) -> Seq<T>;
        proof fn vx_lemma_order(&self)
            ensures forall|x: T| #[trigger] self.vx_order().contains(x) == self.vx_members().contains(x);
    }
    impl<T: std::hash::Hash + Eq> VxColl<T> for HashSet<T> {
        open spec fn vx_members(&self) -> Set<T> { self@ }
        open spec fn vx_order(&self) -> Seq<T> { self.order() }
        proof fn vx_lemma_order(&self) { self.lemma_order(); }
    }
    impl<T> VxColl<T> for Vec<T> {
        open spec fn vx_members(&self) -> Set<T> { self@.to_set() }
        open spec fn vx_order(&self) -> Seq<T> { self@ }
        proof fn vx_lemma_order(&self) {}
    }
    impl<T: std::hash::Hash + Eq> IntoIterator for HashSet<T> {
        type Item = T;
        type IntoIter = std::vec::IntoIter<T>;
        fn into_iter(self) -> (r: std::vec::IntoIter<T>)
            ensures r.obeys_prophetic_iter_laws(), r.decrease().is_some(), r.remaining() == self.order(),
                forall|x: T| #[trigger] r.remaining().contains(x) == self@.contains(x),
                forall|j: int| 0 <= j < r.remaining().len() ==> self@.contains(#[trigger] r.remaining()[j]),
                forall|i: int, j: int| 0 <= i < j < r.remaining().len() ==> r.remaining()[i] != r.remaining()[j],
        {
            let v = self.vx_into_vec();
            proof { assert forall|j: int| 0 <= j < v@.len() implies self@.contains(#[trigger] v@[j]) by { assert(v@.contains(v@[j])); } }
            v.into_iter()
        }
    }
    }
}

// ---- abstract view of task::Runner (trusted boundary: threads + channel) ---------------------
pub mod rs {
    use vstd::prelude::*;
    use crate::graph::BuildId;
    use crate::task::Runner;
    verus! {
    /// builds whose command has been started by this runner (ever)
    pub uninterp spec fn started(r: Runner) -> Set<BuildId>;
    /// builds whose command is executing now (started, completion not yet returned by wait)
    pub uninterp spec fn live(r: Runner) -> Set<BuildId>;
    pub uninterp spec fn par(r: Runner) -> nat;
    /// how many completions returned by wait() so far reported Termination::Success (C19: `ran N tasks`)
    pub uninterp spec fn succ(r: Runner) -> nat;
    /// label (no content): the report was returned by Runner::wait, i.e. it describes a command that ran in this invocation
    pub uninterp spec fn from_run(t: crate::task::TaskResult) -> bool;
    }
}

verus! {
/// R9 wrapper for `graph.files.all_ids()` (an `impl Iterator` built from Range::map, no Verus model): the ids 0..len in order
#[verifier::external_body]
pub fn vx_all_ids(files: &crate::graph::GraphFiles) -> (r: Vec<crate::graph::FileId>)
    ensures r@.len() == files.by_id.vec@.len(), forall|i: int| 0 <= i < r@.len() ==> #[trigger] r@[i] == crate::graph::FileId(i as u32)
{ unimplemented!() }
}


verus! {
/// R9 wrapper for `a[range].iter().sum()` over a usize array (Iterator::sum is a provided trait method: no Verus model).
/// TRUSTED: the std documentation of range indexing (panics unless lo <= hi <= len) and of `sum` (panics on overflow in
/// debug builds, so no overflow is a precondition here as it is for the `+` chain this replaces).
pub trait VxRange { spec fn lo(&self) -> int; spec fn hi(&self, n: int) -> int; }
impl VxRange for std::ops::Range<usize> { open spec fn lo(&self) -> int { self.start as int } open spec fn hi(&self, n: int) -> int { self.end as int } }
impl VxRange for std::ops::RangeInclusive<usize> { open spec fn lo(&self) -> int { self@.start as int } open spec fn hi(&self, n: int) -> int { self@.end as int + 1 } }
impl VxRange for std::ops::RangeTo<usize> { open spec fn lo(&self) -> int { 0 } open spec fn hi(&self, n: int) -> int { self.end as int } }
impl VxRange for std::ops::RangeFrom<usize> { open spec fn lo(&self) -> int { self.start as int } open spec fn hi(&self, n: int) -> int { n } }
impl VxRange for std::ops::RangeFull { open spec fn lo(&self) -> int { 0 } open spec fn hi(&self, n: int) -> int { n } }
pub open spec fn vx_ssum(s: Seq<usize>, lo: int, hi: int) -> int decreases hi - lo { if lo >= hi { 0 } else { s[lo] + vx_ssum(s, lo + 1, hi) } }
#[verifier::external_body]
pub fn vx_sum_range<const N: usize, R: VxRange>(a: &[usize; N], r: R) -> (s: usize)
    requires 0 <= r.lo() <= r.hi(N as int) <= N, vx_ssum(a@, r.lo(), r.hi(N as int)) <= usize::MAX,
    ensures s == vx_ssum(a@, r.lo(), r.hi(N as int)),
{ unimplemented!() }
}
