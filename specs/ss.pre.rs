// ---- scheduler spec vocabulary (DESIGN §4, §6 C01/C04/C05/C06/C18/C19) --------------------
pub mod ss {
    use vstd::prelude::*;
    use crate::graph::*;
    use crate::work::*;
    use crate::gs;
    use crate::vx_keys::{vx_ix, ix};
    verus! {
    broadcast use crate::vx_keys::group_keys;

    pub open spec fn rank(s: BuildState) -> int {
        match s {
            BuildState::Unknown => 0, BuildState::Want => 1, BuildState::Ready => 2, BuildState::Queued => 3,
            BuildState::Running => 4, BuildState::Done => 5, BuildState::Failed => 5,
        }
    }
    /// the only state transitions a build may take; nothing leaves Done or Failed
    pub open spec fn step_ok(a: BuildState, b: BuildState) -> bool {
        match (a, b) {
            (BuildState::Unknown, BuildState::Want) => true,
            (BuildState::Unknown, BuildState::Ready) => true,
            (BuildState::Want, BuildState::Ready) => true,
            // re-entrant want_build through a validation edge sets an already-Want build to Want again (identity)
            (BuildState::Want, BuildState::Want) => true,
            (BuildState::Ready, BuildState::Queued) => true,
            (BuildState::Ready, BuildState::Done) => true,
            (BuildState::Queued, BuildState::Running) => true,
            (BuildState::Running, BuildState::Done) => true,
            (BuildState::Running, BuildState::Failed) => true,
            _ => false,
        }
    }
    pub open spec fn st_of(bs: BuildStates) -> Seq<BuildState> { bs.states.vec@ }

    /// file f's producing step (if any) is Done
    pub open spec fn producer_done(g: Graph, st: Seq<BuildState>, f: FileId) -> bool {
        gs::fid_ok(g, f) && match gs::files(g)[ix(f)].input {
            Some(p) => ix(p) < st.len() && st[ix(p)] == BuildState::Done,
            None => true,
        }
    }
    /// C01: every step producing an explicit, implicit or order-only input of b is Done
    pub open spec fn producers_done(g: Graph, st: Seq<BuildState>, b: int) -> bool {
        forall|j: int| 0 <= j < gs::ordering_ins(gs::builds(g)[b]).len() ==>
            producer_done(g, st, #[trigger] gs::ordering_ins(gs::builds(g)[b])[j])
    }
    pub open spec fn inv1(g: Graph, st: Seq<BuildState>) -> bool {
        forall|b: int| 0 <= b < st.len() && rank(#[trigger] st[b]) >= 2 ==> producers_done(g, st, b)
    }

    // --- counting
    pub open spec fn count(st: Seq<BuildState>, p: spec_fn(int, BuildState) -> bool) -> nat
        decreases st.len()
    {
        if st.len() == 0 { 0 } else {
            count(st.drop_last(), p) + if p(st.len() - 1, st.last()) { 1nat } else { 0nat }
        }
    }
    pub proof fn lemma_count_update(st: Seq<BuildState>, p: spec_fn(int, BuildState) -> bool, i: int, v: BuildState)
        requires 0 <= i < st.len()
        ensures count(st.update(i, v), p) == count(st, p) - (if p(i, st[i]) { 1int } else { 0int }) + (if p(i, v) { 1int } else { 0int }),
                count(st, p) >= (if p(i, st[i]) { 1int } else { 0int }),
        decreases st.len()
    {
        let n = st.len() - 1;
        if i == n {
            assert(st.update(i, v).drop_last() =~= st.drop_last());
        } else {
            assert(st.update(i, v).drop_last() =~= st.drop_last().update(i, v));
            lemma_count_update(st.drop_last(), p, i, v);
        }
    }
    pub proof fn lemma_count_bound(st: Seq<BuildState>, p: spec_fn(int, BuildState) -> bool)
        ensures count(st, p) <= st.len()
        decreases st.len()
    { if st.len() > 0 { lemma_count_bound(st.drop_last(), p); } }
    pub proof fn lemma_count_zero(st: Seq<BuildState>, p: spec_fn(int, BuildState) -> bool)
        requires forall|i: int| 0 <= i < st.len() ==> !p(i, st[i])
        ensures count(st, p) == 0
        decreases st.len()
    { if st.len() > 0 { lemma_count_zero(st.drop_last(), p); } }
    pub proof fn lemma_count_pos(st: Seq<BuildState>, p: spec_fn(int, BuildState) -> bool, i: int)
        requires 0 <= i < st.len(), p(i, st[i])
        ensures count(st, p) >= 1
        decreases st.len()
    { if i < st.len() - 1 { lemma_count_pos(st.drop_last(), p, i); } }

    // --- pools
    pub open spec fn pool_name(b: Build) -> Seq<char> {
        match b.pool { Some(s) => s@, None => Seq::<char>::empty() }
    }
    pub open spec fn pools_of(bs: BuildStates) -> Seq<(String, PoolState)> { bs.pools.0@ }
    /// index of the pool a build runs in: first entry whose key is the build's pool name; -1 if none
    pub open spec fn first_key(ps: Seq<(String, PoolState)>, name: Seq<char>) -> int
        decreases ps.len()
    {
        if ps.len() == 0 { -1 } else if ps[0].0@ == name { 0 } else {
            let r = first_key(ps.drop_first(), name);
            if r < 0 { -1 } else { r + 1 }
        }
    }
    pub proof fn lemma_first_key(ps: Seq<(String, PoolState)>, name: Seq<char>)
        ensures ({ let r = first_key(ps, name);
            -1 <= r < ps.len() && (r >= 0 ==> ps[r].0@ == name && forall|j: int| 0 <= j < r ==> ps[j].0@ != name)
            && (r < 0 ==> forall|j: int| 0 <= j < ps.len() ==> ps[j].0@ != name) })
        decreases ps.len()
    {
        if ps.len() > 0 && ps[0].0@ != name {
            lemma_first_key(ps.drop_first(), name);
            let r0 = first_key(ps.drop_first(), name);
            assert forall|j: int| 1 <= j < ps.len() implies ps[j] == ps.drop_first()[j - 1] by {}
            if r0 >= 0 {
                assert forall|j: int| 0 <= j < r0 + 1 implies ps[j].0@ != name by { if j > 0 { assert(ps.drop_first()[j - 1].0@ != name); } }
            } else {
                assert forall|j: int| 0 <= j < ps.len() implies ps[j].0@ != name by { if j > 0 { assert(ps.drop_first()[j - 1].0@ != name); } }
            }
        }
    }
    /// first_key only depends on the keys
    pub proof fn lemma_first_key_keys(a: Seq<(String, PoolState)>, b: Seq<(String, PoolState)>, name: Seq<char>)
        requires a.len() == b.len(), forall|j: int| 0 <= j < a.len() ==> a[j].0@ == b[j].0@
        ensures first_key(a, name) == first_key(b, name)
        decreases a.len()
    {
        if a.len() > 0 {
            assert(a[0].0@ == b[0].0@);
            assert forall|j: int| 0 <= j < a.drop_first().len() implies a.drop_first()[j].0@ == b.drop_first()[j].0@ by {
                assert(a.drop_first()[j] == a[j + 1]); assert(b.drop_first()[j] == b[j + 1]);
            }
            lemma_first_key_keys(a.drop_first(), b.drop_first(), name);
        }
    }
    pub open spec fn pool_ix(g: Graph, bs: BuildStates, b: int) -> int { first_key(pools_of(bs), pool_name(gs::builds(g)[b])) }
    pub open spec fn phony(b: Build) -> bool { b.cmdline is None }

    pub open spec fn queue_ok(g: Graph, bs: BuildStates, q: Seq<BuildId>, want: BuildState, pool: int) -> bool {
        gs::no_dup(q) && forall|k: int| 0 <= k < q.len() ==> ix(#[trigger] q[k]) < st_of(bs).len() && st_of(bs)[ix(q[k])] == want
            && (pool >= 0 ==> pool_ix(g, bs, ix(q[k])) == pool)
    }
    pub open spec fn running_in(g: Graph, bs: BuildStates, j: int) -> spec_fn(int, BuildState) -> bool {
        |i: int, s: BuildState| s == BuildState::Running && pool_ix(g, bs, i) == j
    }
    pub open spec fn counted(g: Graph, want: BuildState) -> spec_fn(int, BuildState) -> bool {
        |i: int, s: BuildState| s == want && !phony(gs::builds(g)[i])
    }
    pub open spec fn is_pending() -> spec_fn(int, BuildState) -> bool {
        |i: int, s: BuildState| 1 <= rank(s) <= 4
    }
    pub open spec fn state_of_idx(k: int) -> BuildState {
        if k == 0 { BuildState::Want } else if k == 1 { BuildState::Ready } else if k == 2 { BuildState::Queued }
        else if k == 3 { BuildState::Running } else if k == 4 { BuildState::Done } else { BuildState::Failed }
    }
    pub open spec fn idx_of(s: BuildState) -> int {
        match s { BuildState::Unknown => -1, BuildState::Want => 0, BuildState::Ready => 1, BuildState::Queued => 2,
                  BuildState::Running => 3, BuildState::Done => 4, BuildState::Failed => 5 }
    }
    /// C19: each non-phony wanted step is counted in exactly the slot of its current state
    pub open spec fn count_inv(g: Graph, bs: BuildStates) -> bool {
        &&& forall|k: int| 0 <= k < 6 ==> (#[trigger] bs.counts.0@[k]) as int == count(st_of(bs), counted(g, state_of_idx(k)))
        &&& bs.total_pending as int == count(st_of(bs), is_pending())
    }
    /// C04: per-pool running counters are exact and never exceed a positive depth
    pub open spec fn pool_inv(g: Graph, bs: BuildStates) -> bool {
        forall|j: int| 0 <= j < pools_of(bs).len() ==>
            (#[trigger] pools_of(bs)[j]).1.running as int == count(st_of(bs), running_in(g, bs, j))
            && (pools_of(bs)[j].1.depth > 0 ==> pools_of(bs)[j].1.running <= pools_of(bs)[j].1.depth)
            && queue_ok(g, bs, pools_of(bs)[j].1.queued@, BuildState::Queued, j)
    }
    /// a Queued or Running build's pool exists
    pub open spec fn pool_known(g: Graph, bs: BuildStates) -> bool {
        forall|b: int| 0 <= b < st_of(bs).len() && (rank(#[trigger] st_of(bs)[b]) == 4) ==> pool_ix(g, bs, b) >= 0
    }
    pub open spec fn bs_inv(g: Graph, bs: BuildStates) -> bool {
        &&& gs::wf_graph(g)
        &&& st_of(bs).len() == gs::builds(g).len()
        &&& bs.counts.0@.len() == 6
        &&& inv1(g, st_of(bs))
        &&& queue_ok(g, bs, bs.ready@, BuildState::Ready, -1)
        &&& pool_inv(g, bs)
        &&& pool_known(g, bs)
        &&& count_inv(g, bs)
        &&& first_key(pools_of(bs), Seq::<char>::empty()) >= 0
        &&& st_of(bs).len() < 0x7fff_ffff_ffff_0000
        &&& cmd_inv(g, st_of(bs))
    }
    /// only steps with a command line are ever queued or run (phony steps go Ready -> Done)
    pub open spec fn cmd_inv(g: Graph, st: Seq<BuildState>) -> bool {
        forall|b: int| 0 <= b < st.len() && (rank(#[trigger] st[b]) == 3 || rank(st[b]) == 4) ==> !phony(gs::builds(g)[b])
    }
    pub open spec fn in_some_queue(bs: BuildStates, id: BuildId) -> bool {
        exists|j: int| 0 <= j < pools_of(bs).len() && (#[trigger] pools_of(bs)[j]).1.queued@.contains(id)
    }

    // --- local (graph-free) effect of BuildStates::set
    pub open spec fn counts_after(c: Seq<usize>, prev: BuildState, state: BuildState, ph: bool) -> Seq<usize> {
        let c1 = if prev != BuildState::Unknown && !ph { c.update(idx_of(prev), (c[idx_of(prev)] - 1) as usize) } else { c };
        if !ph { c1.update(idx_of(state), (c1[idx_of(state)] + 1) as usize) } else { c1 }
    }
    pub open spec fn b2i(b: bool) -> int { if b { 1 } else { 0 } }
    pub open spec fn set_pre(bs: BuildStates, id: BuildId, build: Build, state: BuildState) -> bool {
        let prev = st_of(bs)[ix(id)];
        let pi = first_key(pools_of(bs), pool_name(build));
        &&& ix(id) < st_of(bs).len()
        &&& state != BuildState::Unknown
        &&& bs.counts.0@.len() == 6
        &&& (forall|k: int| 0 <= k < 6 ==> (#[trigger] bs.counts.0@[k]) < 0x7fff_ffff_ffff_fff0)
        &&& bs.total_pending < usize::MAX
        &&& (prev == BuildState::Running ==> pi >= 0 && pools_of(bs)[pi].1.running > 0)
        &&& (state == BuildState::Running ==> pi >= 0 && pools_of(bs)[pi].1.running < usize::MAX)
        &&& (prev != BuildState::Unknown && !phony(build) ==> bs.counts.0@[idx_of(prev)] > 0)
        &&& ((state == BuildState::Done || state == BuildState::Failed) ==> bs.total_pending + b2i(prev == BuildState::Unknown) > 0)
    }
    pub open spec fn set_effect(b0: BuildStates, b1: BuildStates, id: BuildId, build: Build, state: BuildState) -> bool {
        effect(b0, b1, id, build, state, false)
    }
    pub open spec fn effect(b0: BuildStates, b1: BuildStates, id: BuildId, build: Build, state: BuildState, pushq: bool) -> bool {
        let prev = st_of(b0)[ix(id)];
        let pi = first_key(pools_of(b0), pool_name(build));
        &&& st_of(b1) == st_of(b0).update(ix(id), state)
        &&& b1.total_pending as int == b0.total_pending + b2i(prev == BuildState::Unknown) - b2i(state == BuildState::Done || state == BuildState::Failed)
        &&& b1.counts.0@ == counts_after(b0.counts.0@, prev, state, phony(build))
        &&& b1.ready@ == (if state == BuildState::Ready { b0.ready@.push(id) } else { b0.ready@ })
        &&& pools_of(b1).len() == pools_of(b0).len()
        &&& forall|j: int| 0 <= j < pools_of(b0).len() ==>
                (#[trigger] pools_of(b1)[j]).0 == pools_of(b0)[j].0
                && pools_of(b1)[j].1.queued@ == (if pushq && j == pi { pools_of(b0)[j].1.queued@.push(id) } else { pools_of(b0)[j].1.queued@ })
                && pools_of(b1)[j].1.depth == pools_of(b0)[j].1.depth
                && pools_of(b1)[j].1.running as int == pools_of(b0)[j].1.running
                    + b2i(j == pi && state == BuildState::Running) - b2i(j == pi && prev == BuildState::Running)
    }

    // --- pop_queued: first pool (in declaration order) that has capacity and a queued build
    pub open spec fn eligible(p: PoolState) -> bool { (p.depth == 0 || p.running < p.depth) && p.queued@.len() > 0 }
    pub open spec fn pop_ix(ps: Seq<(String, PoolState)>) -> int
        decreases ps.len()
    {
        if ps.len() == 0 { -1 } else if eligible(ps[0].1) { 0 } else {
            let r = pop_ix(ps.drop_first());
            if r < 0 { -1 } else { r + 1 }
        }
    }
    pub proof fn lemma_pop_ix(ps: Seq<(String, PoolState)>)
        ensures ({ let r = pop_ix(ps);
            -1 <= r < ps.len() && (r >= 0 ==> eligible(ps[r].1) && forall|j: int| 0 <= j < r ==> !eligible(ps[j].1))
            && (r < 0 ==> forall|j: int| 0 <= j < ps.len() ==> !eligible(ps[j].1)) })
        decreases ps.len()
    {
        if ps.len() > 0 && !eligible(ps[0].1) {
            lemma_pop_ix(ps.drop_first());
            let r0 = pop_ix(ps.drop_first());
            assert forall|j: int| 1 <= j < ps.len() implies ps[j] == ps.drop_first()[j - 1] by {}
            if r0 >= 0 {
                assert forall|j: int| 0 <= j < r0 + 1 implies !eligible(ps[j].1) by { if j > 0 { assert(!eligible(ps.drop_first()[j - 1].1)); } }
            } else {
                assert forall|j: int| 0 <= j < ps.len() implies !eligible(ps[j].1) by { if j > 0 { assert(!eligible(ps.drop_first()[j - 1].1)); } }
            }
        }
    }
    pub open spec fn pool_same(a: (String, PoolState), b: (String, PoolState)) -> bool {
        a.0 == b.0 && a.1.running == b.1.running && a.1.depth == b.1.depth && a.1.queued@ == b.1.queued@
    }
    pub open spec fn pop_effect(b0: BuildStates, b1: BuildStates, r: Option<BuildId>) -> bool {
        let pi = pop_ix(pools_of(b0));
        &&& b1.states == b0.states && b1.counts == b0.counts && b1.total_pending == b0.total_pending && b1.ready == b0.ready
        &&& pools_of(b1).len() == pools_of(b0).len()
        &&& (r is Some <==> pi >= 0)
        &&& (r is Some ==> r.unwrap() == pools_of(b0)[pi].1.queued@[0])
        &&& forall|j: int| 0 <= j < pools_of(b0).len() ==>
                (#[trigger] pools_of(b1)[j]).0 == pools_of(b0)[j].0
                && pools_of(b1)[j].1.depth == pools_of(b0)[j].1.depth
                && pools_of(b1)[j].1.running == pools_of(b0)[j].1.running
                && pools_of(b1)[j].1.queued@ == (if j == pi { pools_of(b0)[j].1.queued@.drop_first() } else { pools_of(b0)[j].1.queued@ })
    }

    // --- bs_inv is preserved by every legal transition (the heart of C01 / C04 / C19)
    pub proof fn lemma_count_ext(st: Seq<BuildState>, p: spec_fn(int, BuildState) -> bool, q: spec_fn(int, BuildState) -> bool)
        requires forall|i: int| 0 <= i < st.len() ==> p(i, st[i]) == q(i, st[i])
        ensures count(st, p) == count(st, q)
        decreases st.len()
    { if st.len() > 0 { lemma_count_ext(st.drop_last(), p, q); } }

    pub open spec fn set_ok(g: Graph, b0: BuildStates, id: BuildId, state: BuildState) -> bool {
        let i = ix(id);
        let prev = st_of(b0)[i];
        let pi = pool_ix(g, b0, i);
        &&& i < st_of(b0).len()
        &&& step_ok(prev, state)
        &&& (state == BuildState::Ready ==> producers_done(g, st_of(b0), i))
        &&& (prev == BuildState::Ready ==> !b0.ready@.contains(id))
        &&& (prev == BuildState::Queued ==> !in_some_queue(b0, id))
        &&& (state == BuildState::Running ==> pi >= 0 && (pools_of(b0)[pi].1.depth == 0 || pools_of(b0)[pi].1.running < pools_of(b0)[pi].1.depth))
        &&& (state == BuildState::Queued ==> !phony(gs::builds(g)[i]))
    }
    /// the local precondition of BuildStates::set follows from the invariant
    pub proof fn lemma_set_pre(g: Graph, b0: BuildStates, id: BuildId, state: BuildState)
        requires bs_inv(g, b0), set_ok(g, b0, id, state)
        ensures set_pre(b0, id, gs::builds(g)[ix(id)], state)
    {
        let i = ix(id);
        let st = st_of(b0);
        let prev = st[i];
        let build = gs::builds(g)[i];
        assert forall|k: int| 0 <= k < 6 implies (#[trigger] b0.counts.0@[k]) < 0x7fff_ffff_ffff_fff0 by {
            lemma_count_bound(st, counted(g, state_of_idx(k)));
        }
        lemma_count_bound(st, is_pending());
        if prev == BuildState::Running {
            let pi = pool_ix(g, b0, i);
            assert(pi >= 0);
            lemma_first_key(pools_of(b0), pool_name(build));
            lemma_count_pos(st, running_in(g, b0, pi), i);
        }
        if state == BuildState::Running {
            let pi = pool_ix(g, b0, i);
            lemma_first_key(pools_of(b0), pool_name(build));
            lemma_count_bound(st, running_in(g, b0, pi));
        }
        if prev != BuildState::Unknown && !phony(build) {
            assert(state_of_idx(idx_of(prev)) == prev);
            lemma_count_pos(st, counted(g, prev), i);
        }
        if (state == BuildState::Done || state == BuildState::Failed) && prev != BuildState::Unknown {
            lemma_count_pos(st, is_pending(), i);
        }
    }
    pub proof fn lemma_inv1_step(g: Graph, st0: Seq<BuildState>, i: int, state: BuildState)
        requires inv1(g, st0), 0 <= i < st0.len(), step_ok(st0[i], state), gs::wf_graph(g), st0.len() == gs::builds(g).len(),
            state == BuildState::Ready ==> producers_done(g, st0, i),
        ensures inv1(g, st0.update(i, state))
    {
        let st1 = st0.update(i, state);
        assert forall|b: int| 0 <= b < st1.len() && rank(#[trigger] st1[b]) >= 2 implies producers_done(g, st1, b) by {
            // b's producers were done before (b's rank was >= 2 before, or b == i becoming Ready)
            if b == i {
                if rank(st0[i]) >= 2 { assert(producers_done(g, st0, b)); }
            } else {
                assert(st1[b] == st0[b]);
                assert(producers_done(g, st0, b));
            }
            assert(producers_done(g, st0, b));
            let ins = gs::ordering_ins(gs::builds(g)[b]);
            assert forall|j: int| 0 <= j < ins.len() implies producer_done(g, st1, #[trigger] ins[j]) by {
                assert(producer_done(g, st0, ins[j]));
                match gs::files(g)[ix(ins[j])].input {
                    Some(p) => {
                        // st0[p] == Done and no step leaves Done
                        if ix(p) == i { assert(st0[i] == BuildState::Done); assert(false); }
                    }
                    None => {}
                }
            }
        }
    }
    pub proof fn lemma_pool_ix_same(g: Graph, b0: BuildStates, b1: BuildStates)
        requires pools_of(b1).len() == pools_of(b0).len(),
            forall|j: int| 0 <= j < pools_of(b0).len() ==> (#[trigger] pools_of(b1)[j]).0 == pools_of(b0)[j].0
        ensures forall|b: int| pool_ix(g, b1, b) == pool_ix(g, b0, b),
            first_key(pools_of(b1), Seq::<char>::empty()) == first_key(pools_of(b0), Seq::<char>::empty()),
    {
        assert forall|b: int| pool_ix(g, b1, b) == pool_ix(g, b0, b) by {
            assert forall|j: int| 0 <= j < pools_of(b0).len() implies pools_of(b0)[j].0@ == pools_of(b1)[j].0@ by { let _ = pools_of(b1)[j]; }
            lemma_first_key_keys(pools_of(b0), pools_of(b1), pool_name(gs::builds(g)[b]));
        }
        assert forall|j: int| 0 <= j < pools_of(b0).len() implies pools_of(b0)[j].0@ == pools_of(b1)[j].0@ by { let _ = pools_of(b1)[j]; }
        lemma_first_key_keys(pools_of(b0), pools_of(b1), Seq::<char>::empty());
    }
    pub proof fn lemma_queue_ok_step(g: Graph, b0: BuildStates, b1: BuildStates, q: Seq<BuildId>, want: BuildState, pool: int, id: BuildId, state: BuildState)
        requires queue_ok(g, b0, q, want, pool), ix(id) < st_of(b0).len(),
            st_of(b1) == st_of(b0).update(ix(id), state),
            forall|b: int| pool_ix(g, b1, b) == pool_ix(g, b0, b),
            !q.contains(id) || state == want,
        ensures queue_ok(g, b1, q, want, pool)
    {
        assert forall|k: int| 0 <= k < q.len() implies ix(#[trigger] q[k]) < st_of(b1).len() && st_of(b1)[ix(q[k])] == want
            && (pool >= 0 ==> pool_ix(g, b1, ix(q[k])) == pool) by {
            if q[k] == id { assert(q.contains(id)); }
            else {
                assert(q[k].0 != id.0);
                assert(ix(q[k]) != ix(id));
            }
        }
    }
    pub proof fn lemma_counts_step(g: Graph, b0: BuildStates, b1: BuildStates, id: BuildId, state: BuildState)
        requires bs_inv(g, b0), set_ok(g, b0, id, state),
            st_of(b1) == st_of(b0).update(ix(id), state),
            b1.total_pending as int == b0.total_pending + b2i(st_of(b0)[ix(id)] == BuildState::Unknown) - b2i(state == BuildState::Done || state == BuildState::Failed),
            b1.counts.0@ == counts_after(b0.counts.0@, st_of(b0)[ix(id)], state, phony(gs::builds(g)[ix(id)])),
        ensures count_inv(g, b1), b1.counts.0@.len() == 6
    {
        let i = ix(id);
        let st0 = st_of(b0);
        let prev = st0[i];
        let ph = phony(gs::builds(g)[i]);
        lemma_count_update(st0, is_pending(), i, state);
        assert forall|k: int| 0 <= k < 6 implies (#[trigger] b1.counts.0@[k]) as int == count(st_of(b1), counted(g, state_of_idx(k))) by {
            lemma_count_update(st0, counted(g, state_of_idx(k)), i, state);
            lemma_count_bound(st_of(b1), counted(g, state_of_idx(k)));
            assert(b0.counts.0@[k] as int == count(st0, counted(g, state_of_idx(k))));
            if prev != BuildState::Unknown { assert(state_of_idx(idx_of(prev)) == prev); }
            assert(state_of_idx(idx_of(state)) == state);
        }
    }
    pub proof fn lemma_set_preserves(g: Graph, b0: BuildStates, b1: BuildStates, id: BuildId, state: BuildState, pushq: bool)
        requires bs_inv(g, b0), set_ok(g, b0, id, state),
            effect(b0, b1, id, gs::builds(g)[ix(id)], state, pushq),
            pushq ==> state == BuildState::Queued,
        ensures bs_inv(g, b1)
    {
        let i = ix(id);
        let st0 = st_of(b0);
        let st1 = st_of(b1);
        let prev = st0[i];
        let build = gs::builds(g)[i];
        let pi = pool_ix(g, b0, i);
        lemma_inv1_step(g, st0, i, state);
        lemma_pool_ix_same(g, b0, b1);
        lemma_counts_step(g, b0, b1, id, state);
        lemma_first_key(pools_of(b0), pool_name(build));
        // ready queue
        if state == BuildState::Ready {
            lemma_queue_ok_step(g, b0, b1, b0.ready@, BuildState::Ready, -1, id, state);
            gs::lemma_no_dup_push(b0.ready@, id);
            assert forall|k: int| 0 <= k < b1.ready@.len() implies ix(#[trigger] b1.ready@[k]) < st1.len() && st1[ix(b1.ready@[k])] == BuildState::Ready by {
                if k < b0.ready@.len() { assert(b1.ready@[k] == b0.ready@[k]); }
            }
        } else {
            if b0.ready@.contains(id) {
                let k = choose|k: int| 0 <= k < b0.ready@.len() && b0.ready@[k] == id;
                assert(st0[ix(b0.ready@[k])] == BuildState::Ready);
            }
            lemma_queue_ok_step(g, b0, b1, b0.ready@, BuildState::Ready, -1, id, state);
        }
        // pools
        assert forall|j: int| 0 <= j < pools_of(b1).len() implies
            (#[trigger] pools_of(b1)[j]).1.running as int == count(st1, running_in(g, b1, j))
            && (pools_of(b1)[j].1.depth > 0 ==> pools_of(b1)[j].1.running <= pools_of(b1)[j].1.depth)
            && queue_ok(g, b1, pools_of(b1)[j].1.queued@, BuildState::Queued, j) by {
            let _ = pools_of(b0)[j];
            lemma_count_update(st0, running_in(g, b0, j), i, state);
            lemma_count_ext(st1, running_in(g, b0, j), running_in(g, b1, j));
            let q0 = pools_of(b0)[j].1.queued@;
            if q0.contains(id) {
                let k = choose|k: int| 0 <= k < q0.len() && q0[k] == id;
                assert(st0[ix(q0[k])] == BuildState::Queued);
                assert(in_some_queue(b0, id));
            }
            lemma_queue_ok_step(g, b0, b1, q0, BuildState::Queued, j, id, state);
            if pushq && j == pi {
                gs::lemma_no_dup_push(q0, id);
                let q1 = pools_of(b1)[j].1.queued@;
                assert forall|k: int| 0 <= k < q1.len() implies ix(#[trigger] q1[k]) < st1.len() && st1[ix(q1[k])] == BuildState::Queued
                    && pool_ix(g, b1, ix(q1[k])) == j by {
                    if k < q0.len() { assert(q1[k] == q0[k]); }
                }
            }
        }
        assert forall|b: int| 0 <= b < st1.len() && rank(#[trigger] st1[b]) == 4 implies pool_ix(g, b1, b) >= 0 by {
            if b != i { assert(st1[b] == st0[b]); }
        }
        assert forall|b: int| 0 <= b < st1.len() && (rank(#[trigger] st1[b]) == 3 || rank(st1[b]) == 4) implies !phony(gs::builds(g)[b]) by {
            if b != i { assert(st1[b] == st0[b]); }
        }
    }

    // --- want_file / want_build vocabulary (C01 readiness, C06 termination, C18 closure)
    pub open spec fn stack_ok(g: Graph, s: Seq<FileId>) -> bool { gs::ids_ok(g, s) && gs::no_dup(s) }
    pub open spec fn unk() -> spec_fn(int, BuildState) -> bool { |i: int, s: BuildState| s == BuildState::Unknown }
    /// what a want_* call may change: only Unknown builds move, and only to Want or Ready
    pub open spec fn mono(b0: BuildStates, b1: BuildStates) -> bool {
        &&& st_of(b1).len() == st_of(b0).len()
        &&& forall|b: int| 0 <= b < st_of(b0).len() ==> (#[trigger] st_of(b1)[b] == st_of(b0)[b]
                || (st_of(b0)[b] == BuildState::Unknown && (st_of(b1)[b] == BuildState::Want || st_of(b1)[b] == BuildState::Ready))
                || (st_of(b0)[b] == BuildState::Want && st_of(b1)[b] == BuildState::Want))
        &&& pools_of(b1).len() == pools_of(b0).len()
        &&& forall|j: int| 0 <= j < pools_of(b0).len() ==> pool_same(#[trigger] pools_of(b1)[j], pools_of(b0)[j])
    }
    pub open spec fn same_bs(b0: BuildStates, b1: BuildStates) -> bool {
        st_of(b1) == st_of(b0) && b1.ready@ == b0.ready@ && b1.counts.0@ == b0.counts.0@ && b1.total_pending == b0.total_pending
        && pools_of(b1).len() == pools_of(b0).len()
        && forall|j: int| 0 <= j < pools_of(b0).len() ==> pool_same(#[trigger] pools_of(b1)[j], pools_of(b0)[j])
    }
    pub proof fn lemma_mono_trans(a: BuildStates, b: BuildStates, c: BuildStates)
        requires mono(a, b), mono(b, c)
        ensures mono(a, c)
    {
        assert forall|j: int| 0 <= j < pools_of(a).len() implies pool_same(#[trigger] pools_of(c)[j], pools_of(a)[j]) by {
            assert(pool_same(pools_of(b)[j], pools_of(a)[j]));
        }
    }
    pub proof fn lemma_mono_unk(b0: BuildStates, b1: BuildStates)
        requires mono(b0, b1)
        ensures count(st_of(b1), unk()) <= count(st_of(b0), unk())
    {
        lemma_count_mono(st_of(b0), st_of(b1));
    }
    pub proof fn lemma_count_mono(s0: Seq<BuildState>, s1: Seq<BuildState>)
        requires s0.len() == s1.len(), forall|b: int| 0 <= b < s0.len() ==> (s1[b] == BuildState::Unknown ==> s0[b] == BuildState::Unknown)
        ensures count(s1, unk()) <= count(s0, unk())
        decreases s0.len()
    {
        if s0.len() > 0 { lemma_count_mono(s0.drop_last(), s1.drop_last()); }
    }
    /// pigeonhole: a duplicate-free list of file ids below n has at most n entries
    pub proof fn lemma_pigeon(s: Seq<FileId>, n: int)
        requires n >= 0, gs::no_dup(s), forall|k: int| 0 <= k < s.len() ==> ix(#[trigger] s[k]) < n
        ensures s.len() <= n
        decreases n
    {
        if s.len() > 0 {
            if n == 0 { assert(ix(s[0]) < n); }
            else if exists|k: int| 0 <= k < s.len() && ix(#[trigger] s[k]) == n - 1 {
                let k = choose|k: int| 0 <= k < s.len() && ix(#[trigger] s[k]) == n - 1;
                let t = s.remove(k);
                assert forall|a: int, b: int| 0 <= a < b < t.len() implies t[a] != t[b] by {
                    let a2 = if a < k { a } else { a + 1 };
                    let b2 = if b < k { b } else { b + 1 };
                    assert(t[a] == s[a2] && t[b] == s[b2]);
                }
                assert forall|j: int| 0 <= j < t.len() implies ix(#[trigger] t[j]) < n - 1 by {
                    let j2 = if j < k { j } else { j + 1 };
                    assert(t[j] == s[j2]);
                    assert(s[j2] != s[k]);
                    assert(ix(s[j2]) < n);
                    if ix(s[j2]) == n - 1 { assert(s[j2].0 == s[k].0); }
                }
                lemma_pigeon(t, n - 1);
                assert(t.len() == s.len() - 1);
            } else {
                assert forall|j: int| 0 <= j < s.len() implies ix(#[trigger] s[j]) < n - 1 by { assert(ix(s[j]) < n); }
                lemma_pigeon(s, n - 1);
            }
        }
    }

    pub proof fn lemma_unk_strict(b0: BuildStates, b1: BuildStates, i: int)
        requires mono(b0, b1), 0 <= i < st_of(b0).len(), st_of(b0)[i] == BuildState::Unknown, st_of(b1)[i] != BuildState::Unknown
        ensures count(st_of(b1), unk()) < count(st_of(b0), unk())
    {
        lemma_count_strict(st_of(b0), st_of(b1), i);
    }
    pub proof fn lemma_count_strict(s0: Seq<BuildState>, s1: Seq<BuildState>, i: int)
        requires s0.len() == s1.len(), 0 <= i < s0.len(), s0[i] == BuildState::Unknown, s1[i] != BuildState::Unknown,
            forall|b: int| 0 <= b < s0.len() ==> (s1[b] == BuildState::Unknown ==> s0[b] == BuildState::Unknown)
        ensures count(s1, unk()) < count(s0, unk())
        decreases s0.len()
    {
        if i == s0.len() - 1 { lemma_count_mono(s0.drop_last(), s1.drop_last()); }
        else { lemma_count_strict(s0.drop_last(), s1.drop_last(), i); }
    }
    pub proof fn lemma_same_bs_mono(b0: BuildStates, b1: BuildStates)
        requires same_bs(b0, b1)
        ensures mono(b0, b1)
    {}
    /// bs_inv only looks at views, so it transfers across same_bs
    pub proof fn lemma_not_done_stable(g: Graph, b0: BuildStates, b1: BuildStates, f: FileId)
        requires mono(b0, b1), gs::fid_ok(g, f), !producer_done(g, st_of(b0), f),
            gs::wf_graph(g), st_of(b0).len() == gs::builds(g).len()
        ensures !producer_done(g, st_of(b1), f)
    {}
    pub proof fn lemma_done_stable(g: Graph, b0: BuildStates, b1: BuildStates, f: FileId)
        requires mono(b0, b1), producer_done(g, st_of(b0), f)
        ensures producer_done(g, st_of(b1), f)
    {}

    // --- Work level
    pub open spec fn rd_rel(s0: Seq<BuildState>, s1: Seq<BuildState>) -> bool {
        s1.len() == s0.len() && forall|b: int| 0 <= b < s0.len() ==> (#[trigger] s1[b]) == s0[b] || (s0[b] == BuildState::Want && s1[b] == BuildState::Ready)
    }
    pub open spec fn queues_same(b0: BuildStates, b1: BuildStates) -> bool {
        pools_of(b1).len() == pools_of(b0).len()
        && forall|j: int| 0 <= j < pools_of(b0).len() ==> (#[trigger] pools_of(b1)[j]).0 == pools_of(b0)[j].0
            && pools_of(b1)[j].1.depth == pools_of(b0)[j].1.depth && pools_of(b1)[j].1.queued@ == pools_of(b0)[j].1.queued@
    }
    /// effect of Work::ready_dependents(id): id becomes Done, some Want builds become Ready, nothing else moves
    pub open spec fn rd_effect(b0: BuildStates, b1: BuildStates, id: BuildId) -> bool {
        &&& st_of(b1).len() == st_of(b0).len()
        &&& st_of(b1)[ix(id)] == BuildState::Done
        &&& forall|b: int| 0 <= b < st_of(b0).len() && b != ix(id) ==> (#[trigger] st_of(b1)[b]) == st_of(b0)[b] || (st_of(b0)[b] == BuildState::Want && st_of(b1)[b] == BuildState::Ready)
        &&& queues_same(b0, b1)
    }
    pub open spec fn all_done(g: Graph, st: Seq<BuildState>, s: Seq<FileId>) -> bool {
        forall|j: int| 0 <= j < s.len() ==> producer_done(g, st, #[trigger] s[j])
    }

    // --- potential function for termination of Work::run (C06)
    pub open spec fn pot(st: Seq<BuildState>) -> nat
        decreases st.len()
    { if st.len() == 0 { 0 } else { pot(st.drop_last()) + (5 - rank(st.last())) as nat } }
    pub proof fn lemma_pot_update(st: Seq<BuildState>, i: int, v: BuildState)
        requires 0 <= i < st.len()
        ensures pot(st.update(i, v)) == pot(st) + rank(st[i]) - rank(v), 0 <= pot(st) <= 5 * st.len()
        decreases st.len()
    {
        if i == st.len() - 1 { assert(st.update(i, v).drop_last() =~= st.drop_last()); lemma_pot_bound(st.drop_last()); }
        else { assert(st.update(i, v).drop_last() =~= st.drop_last().update(i, v)); lemma_pot_update(st.drop_last(), i, v); }
    }
    pub proof fn lemma_pot_bound(st: Seq<BuildState>)
        ensures 0 <= pot(st) <= 5 * st.len()
        decreases st.len()
    { if st.len() > 0 { lemma_pot_bound(st.drop_last()); } }
    pub proof fn lemma_pot_rd(s0: Seq<BuildState>, s1: Seq<BuildState>)
        requires rd_rel(s0, s1)
        ensures pot(s1) <= pot(s0)
        decreases s0.len()
    {
        if s0.len() > 0 {
            assert(s1.last() == s0.last() || (s0.last() == BuildState::Want && s1.last() == BuildState::Ready));
            assert forall|b: int| 0 <= b < s0.drop_last().len() implies (#[trigger] s1.drop_last()[b]) == s0.drop_last()[b] || (s0.drop_last()[b] == BuildState::Want && s1.drop_last()[b] == BuildState::Ready) by {
                assert(s1[b] == s0[b] || (s0[b] == BuildState::Want && s1[b] == BuildState::Ready));
            }
            lemma_pot_rd(s0.drop_last(), s1.drop_last());
        }
    }
    /// ready_dependents strictly lowers the potential (id: Ready/Running -> Done)
    pub proof fn lemma_pot_rd_effect(b0: BuildStates, b1: BuildStates, id: BuildId)
        requires rd_effect(b0, b1, id), ix(id) < st_of(b0).len(), rank(st_of(b0)[ix(id)]) < 5
        ensures pot(st_of(b1)) < pot(st_of(b0))
    {
        let mid = st_of(b0).update(ix(id), BuildState::Done);
        lemma_pot_update(st_of(b0), ix(id), BuildState::Done);
        assert(rd_rel(mid, st_of(b1))) by {
            assert forall|b: int| 0 <= b < mid.len() implies (#[trigger] st_of(b1)[b]) == mid[b] || (mid[b] == BuildState::Want && st_of(b1)[b] == BuildState::Ready) by {}
        }
        lemma_pot_rd(mid, st_of(b1));
    }

    // --- popping queues keeps the invariant
    pub proof fn lemma_pop_ready(g: Graph, b0: BuildStates, b1: BuildStates, id: BuildId)
        requires bs_inv(g, b0), b0.ready@.len() > 0, id == b0.ready@[0], b1.ready@ == b0.ready@.drop_first(),
            b1.states == b0.states, b1.counts == b0.counts, b1.total_pending == b0.total_pending, b1.pools == b0.pools
        ensures bs_inv(g, b1), ix(id) < st_of(b1).len(), st_of(b1)[ix(id)] == BuildState::Ready, !b1.ready@.contains(id)
    {
        let q0 = b0.ready@;
        let q1 = b1.ready@;
        assert forall|k: int| 0 <= k < q1.len() implies ix(#[trigger] q1[k]) < st_of(b1).len() && st_of(b1)[ix(q1[k])] == BuildState::Ready by { assert(q1[k] == q0[k + 1]); }
        assert forall|i: int, j: int| 0 <= i < j < q1.len() implies q1[i] != q1[j] by { assert(q1[i] == q0[i + 1] && q1[j] == q0[j + 1]); }
        if q1.contains(id) { let k = choose|k: int| 0 <= k < q1.len() && q1[k] == id; assert(q0[k + 1] == q0[0]); }
        assert(st_of(b0)[ix(q0[0])] == BuildState::Ready);
        lemma_bs_inv_views(g, b0, b1);
    }
    /// bs_inv only depends on the views of the pieces
    pub proof fn lemma_bs_inv_views(g: Graph, b0: BuildStates, b1: BuildStates)
        requires bs_inv(g, b0), st_of(b1) == st_of(b0), b1.counts.0@ == b0.counts.0@, b1.total_pending == b0.total_pending,
            queue_ok(g, b1, b1.ready@, BuildState::Ready, -1),
            pools_of(b1).len() == pools_of(b0).len(),
            forall|j: int| 0 <= j < pools_of(b0).len() ==> (#[trigger] pools_of(b1)[j]).0 == pools_of(b0)[j].0
                && pools_of(b1)[j].1.running == pools_of(b0)[j].1.running && pools_of(b1)[j].1.depth == pools_of(b0)[j].1.depth
                && queue_ok(g, b1, pools_of(b1)[j].1.queued@, BuildState::Queued, j),
        ensures bs_inv(g, b1)
    {
        lemma_pool_ix_same(g, b0, b1);
        assert forall|j: int| 0 <= j < pools_of(b1).len() implies
            (#[trigger] pools_of(b1)[j]).1.running as int == count(st_of(b1), running_in(g, b1, j)) by {
            let _ = pools_of(b0)[j];
            lemma_count_ext(st_of(b1), running_in(g, b0, j), running_in(g, b1, j));
        }
        assert forall|b: int| 0 <= b < st_of(b1).len() && rank(#[trigger] st_of(b1)[b]) == 4 implies pool_ix(g, b1, b) >= 0 by {}
    }
    pub proof fn lemma_pop_queued(g: Graph, b0: BuildStates, b1: BuildStates, r: Option<BuildId>)
        requires bs_inv(g, b0), pop_effect(b0, b1, r)
        ensures bs_inv(g, b1), r is Some ==> set_ok(g, b1, r.unwrap(), BuildState::Running) && st_of(b1)[ix(r.unwrap())] == BuildState::Queued
    {
        let pi = pop_ix(pools_of(b0));
        lemma_pop_ix(pools_of(b0));
        lemma_pool_ix_same(g, b0, b1);
        assert(queue_ok(g, b1, b1.ready@, BuildState::Ready, -1));
        assert forall|j: int| 0 <= j < pools_of(b0).len() implies queue_ok(g, b1, (#[trigger] pools_of(b1)[j]).1.queued@, BuildState::Queued, j) by {
            let q0 = pools_of(b0)[j].1.queued@;
            let q1 = pools_of(b1)[j].1.queued@;
            if j == pi {
                assert forall|k: int| 0 <= k < q1.len() implies ix(#[trigger] q1[k]) < st_of(b1).len() && st_of(b1)[ix(q1[k])] == BuildState::Queued && pool_ix(g, b1, ix(q1[k])) == j by { assert(q1[k] == q0[k + 1]); }
                assert forall|a: int, c: int| 0 <= a < c < q1.len() implies q1[a] != q1[c] by { assert(q1[a] == q0[a + 1] && q1[c] == q0[c + 1]); }
            } else {
                assert forall|k: int| 0 <= k < q1.len() implies ix(#[trigger] q1[k]) < st_of(b1).len() && st_of(b1)[ix(q1[k])] == BuildState::Queued && pool_ix(g, b1, ix(q1[k])) == j by { assert(q1[k] == q0[k]); }
            }
        }
        lemma_bs_inv_views(g, b0, b1);
        if r is Some {
            let id = r.unwrap();
            let q0 = pools_of(b0)[pi].1.queued@;
            assert(q0[0] == id);
            assert(st_of(b0)[ix(q0[0])] == BuildState::Queued && pool_ix(g, b0, ix(q0[0])) == pi);
            if in_some_queue(b1, id) {
                let j = choose|j: int| 0 <= j < pools_of(b1).len() && (#[trigger] pools_of(b1)[j]).1.queued@.contains(id);
                let q1 = pools_of(b1)[j].1.queued@;
                let k = choose|k: int| 0 <= k < q1.len() && q1[k] == id;
                if j == pi { assert(q1[k] == q0[k + 1]); assert(q0[k + 1] == q0[0]); }
                else { assert(pool_ix(g, b1, ix(q1[k])) == j); }
            }
        }
    }
    // --- record_finished may add files and replace one build's discovered inputs; nothing the scheduler looks at
    pub open spec fn graph_ext(g0: Graph, g1: Graph) -> bool { gs::graph_ext(g0, g1) }
    /// a report made up without running the command (`-t restat` adopting a step) must repeat, in order, the names of the
    /// dependencies the step discovered in its last real run (C09: the remembered list is only ever replaced by a run's report)
    pub open spec fn keeps_disc(g: Graph, id: BuildId, deps: Option<Vec<String>>) -> bool {
        let d = gs::builds(g)[ix(id)].discovered_ins@;
        deps is Some && deps->Some_0@.len() == d.len()
        && forall|j: int| 0 <= j < d.len() ==> (#[trigger] deps->Some_0@[j])@ == gs::files(g)[ix(d[j])].name@
    }
    pub proof fn lemma_graph_ext(g0: Graph, g1: Graph, bs: BuildStates)
        requires bs_inv(g0, bs), gs::wf_graph(g1), graph_ext(g0, g1)
        ensures bs_inv(g1, bs)
    {
        let st = st_of(bs);
        assert forall|b: int| 0 <= b < st.len() && rank(#[trigger] st[b]) >= 2 implies producers_done(g1, st, b) by {
            assert(producers_done(g0, st, b));
            let _ = gs::builds(g1)[b];
            assert(gs::wf_build(gs::builds(g0)[b]) && gs::build_ids_ok(g0, gs::builds(g0)[b]));
            let ins = gs::ordering_ins(gs::builds(g1)[b]);
            assert(ins == gs::ordering_ins(gs::builds(g0)[b]));
            assert forall|j: int| 0 <= j < ins.len() implies producer_done(g1, st, #[trigger] ins[j]) by {
                assert(producer_done(g0, st, ins[j]));
                let _ = gs::files(g1)[ix(ins[j])];
            }
        }
        assert forall|b: int| pool_ix(g1, bs, b) == pool_ix(g0, bs, b) || !(0 <= b < st.len()) by {
            if 0 <= b < st.len() { let _ = gs::builds(g1)[b]; }
        }
        assert(queue_ok(g1, bs, bs.ready@, BuildState::Ready, -1));
        assert forall|j: int| 0 <= j < pools_of(bs).len() implies
            (#[trigger] pools_of(bs)[j]).1.running as int == count(st, running_in(g1, bs, j))
            && queue_ok(g1, bs, pools_of(bs)[j].1.queued@, BuildState::Queued, j) by {
            assert forall|i: int| 0 <= i < st.len() implies running_in(g0, bs, j)(i, st[i]) == running_in(g1, bs, j)(i, st[i]) by { let _ = gs::builds(g1)[i]; }
            lemma_count_ext(st, running_in(g0, bs, j), running_in(g1, bs, j));
            let q = pools_of(bs)[j].1.queued@;
            assert forall|k: int| 0 <= k < q.len() implies pool_ix(g1, bs, ix(#[trigger] q[k])) == j by { let _ = gs::builds(g1)[ix(q[k])]; }
        }
        assert forall|b: int| 0 <= b < st.len() && rank(#[trigger] st[b]) == 4 implies pool_ix(g1, bs, b) >= 0 by { let _ = gs::builds(g1)[b]; }
        assert forall|k: int| 0 <= k < 6 implies (#[trigger] bs.counts.0@[k]) as int == count(st, counted(g1, state_of_idx(k))) by {
            assert forall|i: int| 0 <= i < st.len() implies counted(g0, state_of_idx(k))(i, st[i]) == counted(g1, state_of_idx(k))(i, st[i]) by { let _ = gs::builds(g1)[i]; }
            lemma_count_ext(st, counted(g0, state_of_idx(k)), counted(g1, state_of_idx(k)));
        }
        assert forall|b: int| 0 <= b < st.len() && (rank(#[trigger] st[b]) == 3 || rank(st[b]) == 4) implies !phony(gs::builds(g1)[b]) by { let _ = gs::builds(g1)[b]; }
    }

    // --- Work::run
    pub open spec fn runner_inv(bs: BuildStates, r: crate::task::Runner) -> bool {
        &&& crate::rs::live(r).finite()
        &&& forall|b: BuildId| #[trigger] crate::rs::live(r).contains(b) <==> ix(b) < st_of(bs).len() && st_of(bs)[ix(b)] == BuildState::Running
        &&& forall|b: BuildId| #[trigger] crate::rs::started(r).contains(b) ==> ix(b) < st_of(bs).len() && rank(st_of(bs)[ix(b)]) >= 4
    }
    pub open spec fn no_failed(st: Seq<BuildState>) -> bool { forall|b: int| 0 <= b < st.len() ==> #[trigger] st[b] != BuildState::Failed }
    pub open spec fn budget_ok(o: Options) -> bool { match o.failures_left { Some(k) => k >= 1, None => true } }
    /// C05 "-k budget": every failed command is charged to the budget the invocation started with
    pub open spec fn budget_charged(o0: Options, o: Options, failed: int) -> bool {
        match (o0.failures_left, o.failures_left) { (Some(k0), Some(k)) => k + failed == k0, (None, None) => true, _ => false }
    }
    pub open spec fn opts_same(a: Options, b: Options) -> bool { a.adopt == b.adopt && a.parallelism == b.parallelism && a.explain == b.explain }
    /// every wanted step is Done (C05: the only state in which n2 may report success)
    pub open spec fn all_settled(st: Seq<BuildState>) -> bool {
        forall|b: int| 0 <= b < st.len() ==> #[trigger] st[b] == BuildState::Unknown || st[b] == BuildState::Done
    }
    pub proof fn lemma_count_zero_inv(st: Seq<BuildState>, p: spec_fn(int, BuildState) -> bool)
        requires count(st, p) == 0
        ensures forall|i: int| 0 <= i < st.len() ==> !p(i, #[trigger] st[i])
        decreases st.len()
    {
        if st.len() > 0 {
            lemma_count_zero_inv(st.drop_last(), p);
            assert forall|i: int| 0 <= i < st.len() implies !p(i, #[trigger] st[i]) by {
                if i < st.len() - 1 { assert(st.drop_last()[i] == st[i]); }
            }
        }
    }
    pub proof fn lemma_settled(g: Graph, bs: BuildStates)
        requires bs_inv(g, bs), bs.total_pending == 0, no_failed(st_of(bs))
        ensures all_settled(st_of(bs))
    {
        lemma_count_zero_inv(st_of(bs), is_pending());
        assert forall|b: int| 0 <= b < st_of(bs).len() implies #[trigger] st_of(bs)[b] == BuildState::Unknown || st_of(bs)[b] == BuildState::Done by {
            assert(!is_pending()(b, st_of(bs)[b]));
        }
    }
    pub proof fn lemma_rd_no_failed(b0: BuildStates, b1: BuildStates, id: BuildId)
        requires rd_effect(b0, b1, id), no_failed(st_of(b0))
        ensures no_failed(st_of(b1))
    {
        assert forall|b: int| 0 <= b < st_of(b1).len() implies #[trigger] st_of(b1)[b] != BuildState::Failed by { let _ = st_of(b0)[b]; }
    }
    /// runner_inv survives ready_dependents when the finished id is no longer live
    pub proof fn lemma_rd_runner(b0: BuildStates, b1: BuildStates, id: BuildId, r0: crate::task::Runner, r1: crate::task::Runner, was_running: bool)
        requires rd_effect(b0, b1, id), ix(id) < st_of(b0).len(),
            crate::rs::started(r1) == crate::rs::started(r0), crate::rs::live(r0).finite(),
            was_running ==> runner_inv(b0, r0) && st_of(b0)[ix(id)] == BuildState::Running && crate::rs::live(r1) == crate::rs::live(r0).remove(id),
            !was_running ==> runner_inv(b0, r0) && st_of(b0)[ix(id)] == BuildState::Ready && crate::rs::live(r1) == crate::rs::live(r0),
        ensures runner_inv(b1, r1)
    {
        assert forall|b: BuildId| #[trigger] crate::rs::live(r1).contains(b) <==> ix(b) < st_of(b1).len() && st_of(b1)[ix(b)] == BuildState::Running by {
            if b != id { assert(b.0 != id.0); assert(ix(b) != ix(id)); if ix(b) < st_of(b0).len() { let _ = st_of(b1)[ix(b)]; } }
        }
        assert forall|b: BuildId| #[trigger] crate::rs::started(r1).contains(b) implies ix(b) < st_of(b1).len() && rank(st_of(b1)[ix(b)]) >= 4 by {
            if b != id { assert(b.0 != id.0); assert(ix(b) != ix(id)); let _ = st_of(b1)[ix(b)]; }
        }
    }
    pub proof fn lemma_set_runner(b0: BuildStates, b1: BuildStates, id: BuildId, state: BuildState, r0: crate::task::Runner, r1: crate::task::Runner)
        requires runner_inv(b0, r0), ix(id) < st_of(b0).len(), st_of(b1) == st_of(b0).update(ix(id), state),
            crate::rs::started(r1) == crate::rs::started(r0), crate::rs::live(r1) == crate::rs::live(r0),
            (st_of(b0)[ix(id)] == BuildState::Running) == (state == BuildState::Running),
            rank(state) >= 4 || !crate::rs::started(r0).contains(id),
        ensures runner_inv(b1, r1)
    {
        assert forall|b: BuildId| #[trigger] crate::rs::live(r1).contains(b) <==> ix(b) < st_of(b1).len() && st_of(b1)[ix(b)] == BuildState::Running by {
            if b != id { assert(b.0 != id.0); assert(ix(b) != ix(id)); }
        }
        assert forall|b: BuildId| #[trigger] crate::rs::started(r1).contains(b) implies ix(b) < st_of(b1).len() && rank(st_of(b1)[ix(b)]) >= 4 by {
            if b != id { assert(b.0 != id.0); assert(ix(b) != ix(id)); }
        }
    }

    pub open spec fn pop_ready_rel(b0: BuildStates, b1: BuildStates, r: Option<BuildId>) -> bool {
        &&& b1.states == b0.states && b1.counts == b0.counts && b1.total_pending == b0.total_pending && b1.pools == b0.pools
        &&& match r {
            Some(id) => b0.ready@.len() > 0 && id == b0.ready@[0] && b1.ready@ == b0.ready@.drop_first(),
            None => b0.ready@.len() == 0 && b1.ready@ == b0.ready@,
        }
    }
    pub open spec fn pop_ready_post(g: Graph, b1: BuildStates, r: Option<BuildId>) -> bool {
        bs_inv(g, b1) && (r is Some ==> ix(r.unwrap()) < st_of(b1).len() && st_of(b1)[ix(r.unwrap())] == BuildState::Ready && !b1.ready@.contains(r.unwrap()))
    }
    pub proof fn lemma_pop_ready_any(g: Graph, b0: BuildStates, b1: BuildStates, r: Option<BuildId>)
        requires bs_inv(g, b0), pop_ready_rel(b0, b1, r)
        ensures pop_ready_post(g, b1, r)
    {
        match r {
            Some(id) => { lemma_pop_ready(g, b0, b1, id); }
            None => { lemma_bs_inv_views(g, b0, b1); }
        }
    }

    pub proof fn lemma_graph_ext_trans(a: Graph, b: Graph, c: Graph)
        requires graph_ext(a, b), graph_ext(b, c)
        ensures graph_ext(a, c)
    {
        assert forall|i: int| 0 <= i < gs::builds(a).len() implies (#[trigger] gs::builds(c)[i]).ins == gs::builds(a)[i].ins
                && gs::builds(c)[i].outs == gs::builds(a)[i].outs && gs::builds(c)[i].pool == gs::builds(a)[i].pool
                && (gs::builds(c)[i].cmdline is None) == (gs::builds(a)[i].cmdline is None) by { let _ = gs::builds(b)[i]; }
        assert forall|f: int| 0 <= f < gs::files(a).len() implies (#[trigger] gs::files(c)[f]).input == gs::files(a)[f].input by { let _ = gs::files(b)[f]; }
    }
    pub proof fn lemma_graph_ext_refl(a: Graph)
        ensures graph_ext(a, a)
    {}
    /// after wait() returned build id as failed: it leaves the live set and becomes Failed
    pub proof fn lemma_fail_runner(b0: BuildStates, b1: BuildStates, id: BuildId, r0: crate::task::Runner, r1: crate::task::Runner)
        requires runner_inv(b0, r0), ix(id) < st_of(b0).len(), st_of(b0)[ix(id)] == BuildState::Running,
            st_of(b1) == st_of(b0).update(ix(id), BuildState::Failed),
            crate::rs::started(r1) == crate::rs::started(r0), crate::rs::live(r1) == crate::rs::live(r0).remove(id),
        ensures runner_inv(b1, r1)
    {
        assert forall|b: BuildId| #[trigger] crate::rs::live(r1).contains(b) <==> ix(b) < st_of(b1).len() && st_of(b1)[ix(b)] == BuildState::Running by {
            if b != id { assert(b.0 != id.0); assert(ix(b) != ix(id)); }
        }
        assert forall|b: BuildId| #[trigger] crate::rs::started(r1).contains(b) implies ix(b) < st_of(b1).len() && rank(st_of(b1)[ix(b)]) >= 4 by {
            if b != id { assert(b.0 != id.0); assert(ix(b) != ix(id)); }
        }
    }
    pub proof fn lemma_update_no_failed(s0: Seq<BuildState>, i: int, v: BuildState)
        requires no_failed(s0), 0 <= i < s0.len(), v != BuildState::Failed
        ensures no_failed(s0.update(i, v))
    {
        assert forall|b: int| 0 <= b < s0.len() implies #[trigger] s0.update(i, v)[b] != BuildState::Failed by { if b != i { assert(s0[b] != BuildState::Failed); } }
    }

    pub open spec fn pop_queued_post(g: Graph, b1: BuildStates, r: Option<BuildId>) -> bool {
        bs_inv(g, b1) && (r is Some ==> set_ok(g, b1, r.unwrap(), BuildState::Running) && st_of(b1)[ix(r.unwrap())] == BuildState::Queued)
    }

    // --- C18: the wanted set is closed under explicit, implicit, order-only and validation inputs
    pub open spec fn prod_wanted(g: Graph, st: Seq<BuildState>, f: FileId) -> bool {
        gs::fid_ok(g, f) && match gs::files(g)[ix(f)].input { Some(p) => ix(p) < st.len() && st[ix(p)] != BuildState::Unknown, None => true }
    }
    pub open spec fn closed_ord(g: Graph, st: Seq<BuildState>, b: int) -> bool {
        forall|j: int| 0 <= j < gs::ordering_ins(gs::builds(g)[b]).len() ==> prod_wanted(g, st, #[trigger] gs::ordering_ins(gs::builds(g)[b])[j])
    }
    pub open spec fn closed_val(g: Graph, st: Seq<BuildState>, b: int) -> bool {
        forall|j: int| 0 <= j < gs::validation_ins(gs::builds(g)[b]).len() ==> prod_wanted(g, st, #[trigger] gs::validation_ins(gs::builds(g)[b])[j])
    }
    /// every wanted build has the producers of all its ordering inputs wanted (holds at every moment)
    pub open spec fn closed_u(g: Graph, st: Seq<BuildState>) -> bool {
        forall|b: int| 0 <= b < st.len() && #[trigger] st[b] != BuildState::Unknown ==> closed_ord(g, st, b)
    }
    /// ... and of all its validation inputs (holds between top-level want_file calls)
    pub open spec fn closed_v(g: Graph, st: Seq<BuildState>) -> bool {
        forall|b: int| 0 <= b < st.len() && #[trigger] st[b] != BuildState::Unknown ==> closed_val(g, st, b)
    }
    /// builds that became wanted during a call have their validation inputs' producers wanted when it returns
    pub open spec fn new_closed_v(g: Graph, s0: Seq<BuildState>, s1: Seq<BuildState>) -> bool {
        forall|b: int| 0 <= b < s0.len() && s0[b] == BuildState::Unknown && #[trigger] s1[b] != BuildState::Unknown ==> closed_val(g, s1, b)
    }
    pub proof fn lemma_prod_wanted_mono(g: Graph, b0: BuildStates, b1: BuildStates, f: FileId)
        requires mono(b0, b1), prod_wanted(g, st_of(b0), f)
        ensures prod_wanted(g, st_of(b1), f)
    {}
    pub proof fn lemma_closed_mono(g: Graph, b0: BuildStates, b1: BuildStates, b: int)
        requires mono(b0, b1)
        ensures closed_ord(g, st_of(b0), b) ==> closed_ord(g, st_of(b1), b), closed_val(g, st_of(b0), b) ==> closed_val(g, st_of(b1), b)
    {
        if closed_ord(g, st_of(b0), b) {
            assert forall|j: int| 0 <= j < gs::ordering_ins(gs::builds(g)[b]).len() implies prod_wanted(g, st_of(b1), #[trigger] gs::ordering_ins(gs::builds(g)[b])[j]) by {
                lemma_prod_wanted_mono(g, b0, b1, gs::ordering_ins(gs::builds(g)[b])[j]);
            }
        }
        if closed_val(g, st_of(b0), b) {
            assert forall|j: int| 0 <= j < gs::validation_ins(gs::builds(g)[b]).len() implies prod_wanted(g, st_of(b1), #[trigger] gs::validation_ins(gs::builds(g)[b])[j]) by {
                lemma_prod_wanted_mono(g, b0, b1, gs::validation_ins(gs::builds(g)[b])[j]);
            }
        }
    }
    pub proof fn lemma_new_closed_trans(g: Graph, a: BuildStates, b: BuildStates, c: BuildStates)
        requires mono(a, b), mono(b, c), new_closed_v(g, st_of(a), st_of(b)), new_closed_v(g, st_of(b), st_of(c))
        ensures new_closed_v(g, st_of(a), st_of(c))
    {
        assert forall|i: int| 0 <= i < st_of(a).len() && st_of(a)[i] == BuildState::Unknown && #[trigger] st_of(c)[i] != BuildState::Unknown implies closed_val(g, st_of(c), i) by {
            if st_of(b)[i] != BuildState::Unknown { lemma_closed_mono(g, b, c, i); }
        }
    }
    pub proof fn lemma_closed_u_mono(g: Graph, b0: BuildStates, b1: BuildStates)
        requires mono(b0, b1), closed_u(g, st_of(b0)),
            forall|b: int| 0 <= b < st_of(b0).len() && st_of(b0)[b] == BuildState::Unknown && #[trigger] st_of(b1)[b] != BuildState::Unknown ==> closed_ord(g, st_of(b1), b)
        ensures closed_u(g, st_of(b1))
    {
        assert forall|b: int| 0 <= b < st_of(b1).len() && #[trigger] st_of(b1)[b] != BuildState::Unknown implies closed_ord(g, st_of(b1), b) by {
            if st_of(b0)[b] != BuildState::Unknown { lemma_closed_mono(g, b0, b1, b); }
        }
    }
    pub proof fn lemma_closed_v_top(g: Graph, b0: BuildStates, b1: BuildStates)
        requires mono(b0, b1), closed_v(g, st_of(b0)), new_closed_v(g, st_of(b0), st_of(b1))
        ensures closed_v(g, st_of(b1))
    {
        assert forall|b: int| 0 <= b < st_of(b1).len() && #[trigger] st_of(b1)[b] != BuildState::Unknown implies closed_val(g, st_of(b1), b) by {
            if st_of(b0)[b] != BuildState::Unknown { lemma_closed_mono(g, b0, b1, b); }
        }
    }

    pub open spec fn new_closed_v_except(g: Graph, s0: Seq<BuildState>, s1: Seq<BuildState>, x: int) -> bool {
        forall|b: int| 0 <= b < s0.len() && b != x && s0[b] == BuildState::Unknown && #[trigger] s1[b] != BuildState::Unknown ==> closed_val(g, s1, b)
    }
    pub proof fn lemma_new_closed_except_trans(g: Graph, a: BuildStates, b: BuildStates, c: BuildStates, x: int)
        requires mono(a, b), mono(b, c), new_closed_v_except(g, st_of(a), st_of(b), x), new_closed_v(g, st_of(b), st_of(c))
        ensures new_closed_v_except(g, st_of(a), st_of(c), x)
    {
        assert forall|i: int| 0 <= i < st_of(a).len() && i != x && st_of(a)[i] == BuildState::Unknown && #[trigger] st_of(c)[i] != BuildState::Unknown implies closed_val(g, st_of(c), i) by {
            if st_of(b)[i] != BuildState::Unknown { lemma_closed_mono(g, b, c, i); }
        }
    }
    /// a single legal `set` from Unknown/Want of build i keeps closed_u provided i's ordering producers are wanted
    pub proof fn lemma_closed_u_set(g: Graph, b0: BuildStates, b1: BuildStates, i: int, state: BuildState)
        requires closed_u(g, st_of(b0)), 0 <= i < st_of(b0).len(), st_of(b1) == st_of(b0).update(i, state), state != BuildState::Unknown,
            closed_ord(g, st_of(b0), i)
        ensures closed_u(g, st_of(b1))
    {
        assert forall|b: int| 0 <= b < st_of(b1).len() && #[trigger] st_of(b1)[b] != BuildState::Unknown implies closed_ord(g, st_of(b1), b) by {
            if b != i { assert(st_of(b1)[b] == st_of(b0)[b]); }
            assert(closed_ord(g, st_of(b0), b));
            assert forall|j: int| 0 <= j < gs::ordering_ins(gs::builds(g)[b]).len() implies prod_wanted(g, st_of(b1), #[trigger] gs::ordering_ins(gs::builds(g)[b])[j]) by {
                assert(prod_wanted(g, st_of(b0), gs::ordering_ins(gs::builds(g)[b])[j]));
            }
        }
    }
    pub proof fn lemma_val_set(g: Graph, b0: BuildStates, b1: BuildStates, i: int, state: BuildState, x: int)
        requires 0 <= i < st_of(b0).len(), st_of(b1) == st_of(b0).update(i, state), state != BuildState::Unknown
        ensures closed_val(g, st_of(b0), x) ==> closed_val(g, st_of(b1), x)
    {
        if closed_val(g, st_of(b0), x) {
            assert forall|j: int| 0 <= j < gs::validation_ins(gs::builds(g)[x]).len() implies prod_wanted(g, st_of(b1), #[trigger] gs::validation_ins(gs::builds(g)[x])[j]) by {
                assert(prod_wanted(g, st_of(b0), gs::validation_ins(gs::builds(g)[x])[j]));
            }
        }
    }

    // --- the state a fresh BuildStates / Work starts in (closes the chain: Work::new establishes Work::run's preconditions)
    pub open spec fn fresh(bs: BuildStates) -> bool {
        &&& forall|b: int| 0 <= b < st_of(bs).len() ==> #[trigger] st_of(bs)[b] == BuildState::Unknown
        &&& bs.counts.0@.len() == 6 && forall|k: int| 0 <= k < 6 ==> #[trigger] bs.counts.0@[k] == 0
        &&& bs.total_pending == 0 && bs.ready@.len() == 0
        &&& forall|j: int| 0 <= j < pools_of(bs).len() ==> (#[trigger] pools_of(bs)[j]).1.queued@.len() == 0 && pools_of(bs)[j].1.running == 0
        &&& first_key(pools_of(bs), Seq::<char>::empty()) >= 0
    }
    /// SmallMap's own "first entry with an equal key" is first_key on the names
    pub proof fn lemma_sm_first_key(ps: Seq<(String, PoolState)>, k: String)
        ensures crate::smallmap::sm_first(ps, k) == first_key(ps, k@)
        decreases ps.len()
    {
        broadcast use crate::vx_string_eq::g;
        if ps.len() > 0 && ps[0].0@ != k@ { lemma_sm_first_key(ps.drop_first(), k); }
    }
    /// appending an entry keeps every existing name findable
    pub proof fn lemma_first_key_push(ps: Seq<(String, PoolState)>, e: (String, PoolState), name: Seq<char>)
        ensures first_key(ps, name) >= 0 ==> first_key(ps.push(e), name) == first_key(ps, name),
            first_key(ps, name) < 0 && e.0@ == name ==> first_key(ps.push(e), name) == ps.len(),
        decreases ps.len()
    {
        if ps.len() > 0 {
            assert(ps.push(e).drop_first() =~= ps.drop_first().push(e));
            if ps[0].0@ != name { lemma_first_key_push(ps.drop_first(), e, name); }
        } else {
            assert(ps.push(e).drop_first() =~= Seq::<(String, PoolState)>::empty());
        }
    }
    /// replacing the value of entry i keeps every name where it was
    pub proof fn lemma_first_key_same_names(a: Seq<(String, PoolState)>, b: Seq<(String, PoolState)>, name: Seq<char>)
        requires a.len() == b.len(), forall|j: int| 0 <= j < a.len() ==> (#[trigger] a[j]).0@ == b[j].0@
        ensures first_key(a, name) == first_key(b, name)
        decreases a.len()
    {
        if a.len() > 0 {
            assert forall|j: int| 0 <= j < a.drop_first().len() implies (#[trigger] a.drop_first()[j]).0@ == b.drop_first()[j].0@ by { assert(a[j + 1].0@ == b[j + 1].0@); }
            lemma_first_key_same_names(a.drop_first(), b.drop_first(), name);
        }
    }
    /// SmallMap::insert's effect (from its verified postcondition) on the names of the pool list
    pub open spec fn sm_ins_names(p0: Seq<(String, PoolState)>, p1: Seq<(String, PoolState)>, k: String) -> bool {
        let i = crate::smallmap::sm_first(p0, k);
        if i >= 0 { p1.len() == p0.len() && forall|j: int| 0 <= j < p0.len() ==> (#[trigger] p1[j]).0 == p0[j].0 }
        else { p1.len() == p0.len() + 1 && p1.take(p0.len() as int) == p0 && p1.last().0 == k }
    }
    pub proof fn lemma_pool_insert(p0: Seq<(String, PoolState)>, p1: Seq<(String, PoolState)>, k: String, name: Seq<char>)
        requires sm_ins_names(p0, p1, k)
        ensures first_key(p0, name) >= 0 ==> first_key(p1, name) >= 0, first_key(p1, k@) >= 0
    {
        lemma_sm_first_key(p0, k);
        crate::smallmap::lemma_sm_first(p0, k);
        let i = crate::smallmap::sm_first(p0, k);
        if i >= 0 {
            assert forall|j: int| 0 <= j < p0.len() implies (#[trigger] p0[j]).0@ == p1[j].0@ by {}
            lemma_first_key_same_names(p0, p1, name);
            lemma_first_key_same_names(p0, p1, k@);
        } else {
            assert(p1 =~= p0.push(p1.last()));
            lemma_first_key_push(p0, p1.last(), name);
            lemma_first_key_push(p0, p1.last(), k@);
        }
    }
    pub proof fn lemma_count_none(st: Seq<BuildState>, p: spec_fn(int, BuildState) -> bool)
        requires forall|i: int| 0 <= i < st.len() ==> !p(i, #[trigger] st[i])
        ensures count(st, p) == 0
        decreases st.len()
    {
        if st.len() > 0 {
            assert forall|i: int| 0 <= i < st.drop_last().len() implies !p(i, #[trigger] st.drop_last()[i]) by { assert(st.drop_last()[i] == st[i]); }
            lemma_count_none(st.drop_last(), p);
        }
    }
    pub proof fn lemma_fresh_inv(g: Graph, bs: BuildStates)
        requires gs::wf_graph(g), st_of(bs).len() == gs::builds(g).len(), fresh(bs), st_of(bs).len() < 0x7fff_ffff_ffff_0000
        ensures bs_inv(g, bs), no_failed(st_of(bs)), cmd_inv(g, st_of(bs)),
            forall|b: int| 0 <= b < st_of(bs).len() ==> rank(#[trigger] st_of(bs)[b]) != 4,
    {
        let st = st_of(bs);
        assert forall|k: int| 0 <= k < 6 implies (#[trigger] bs.counts.0@[k]) as int == count(st, counted(g, state_of_idx(k))) by {
            lemma_count_none(st, counted(g, state_of_idx(k)));
        }
        lemma_count_none(st, is_pending());
        assert forall|j: int| 0 <= j < pools_of(bs).len() implies
            (#[trigger] pools_of(bs)[j]).1.running as int == count(st, running_in(g, bs, j))
            && (pools_of(bs)[j].1.depth > 0 ==> pools_of(bs)[j].1.running <= pools_of(bs)[j].1.depth)
            && queue_ok(g, bs, pools_of(bs)[j].1.queued@, BuildState::Queued, j) by {
            lemma_count_none(st, running_in(g, bs, j));
        }
    }

    // --- C06(a): liveness.  live_inv: a Want build still waits for a producer; qc_inv: a Ready build is in the ready queue and a
    //     Queued build in some pool's queue (holds whenever no popped build is "in hand": qc_except names the one in hand).
    pub open spec fn live_inv(g: Graph, st: Seq<BuildState>) -> bool {
        forall|b: int| 0 <= b < st.len() && #[trigger] st[b] == BuildState::Want ==> !producers_done(g, st, b)
    }
    pub open spec fn qc_except(bs: BuildStates, x: int) -> bool {
        forall|id: BuildId| ix(id) < st_of(bs).len() && ix(id) != x ==>
            ((#[trigger] st_of(bs)[ix(id)]) == BuildState::Ready ==> bs.ready@.contains(id))
            && (st_of(bs)[ix(id)] == BuildState::Queued ==> in_some_queue(bs, id))
    }
    pub open spec fn qc_inv(bs: BuildStates) -> bool { qc_except(bs, -1) }
    /// the liveness invariant with build x "in hand" (x = -1: none); opaque outside the lemmas below (keeps the scheduler's queries small)
    #[verifier::opaque]
    pub open spec fn lq_x(g: Graph, bs: BuildStates, x: int) -> bool { live_inv(g, st_of(bs)) && qc_except(bs, x) && wacyc(g, st_of(bs)) }
    pub open spec fn lq(g: Graph, bs: BuildStates) -> bool { lq_x(g, bs, -1) }
    /// every build that lists f among its ordering inputs is among f's dependents (kept by Graph::add_build: unit graph)
    #[verifier::opaque]
    pub open spec fn deps_complete(g: Graph) -> bool { gs::deps_complete(g) }
    /// the wanted steps are numbered so that every producer of an ordering input has a smaller number: the wanted part of the
    /// graph is acyclic.  NOT assumed: want_build gives a step a number above all existing ones when it leaves Unknown, which
    /// happens only after the producers of all its ordering inputs are wanted (the stack check turns a cycle into an error first)
    pub open spec fn topo_w(g: Graph, st: Seq<BuildState>, t: spec_fn(int) -> nat) -> bool {
        forall|b: int, j: int| 0 <= b < st.len() && st[b] != BuildState::Unknown && 0 <= j < gs::ordering_ins(gs::builds(g)[b]).len() ==>
            match gs::files(g)[ix(#[trigger] gs::ordering_ins(gs::builds(g)[b])[j])].input { Some(p) => t(ix(p)) < t(b), None => true }
    }
    #[verifier::opaque]
    pub open spec fn wacyc(g: Graph, st: Seq<BuildState>) -> bool { exists|t: spec_fn(int) -> nat| topo_w(g, st, t) }
    pub open spec fn tmax(t: spec_fn(int) -> nat, n: nat) -> nat decreases n {
        if n == 0 { 0 } else { let m = tmax(t, (n - 1) as nat); if t(n - 1) > m { t(n - 1) } else { m } }
    }
    pub proof fn lemma_tmax(t: spec_fn(int) -> nat, n: nat, i: int)
        requires 0 <= i < n ensures t(i) <= tmax(t, n) decreases n
    { if i < n - 1 { lemma_tmax(t, (n - 1) as nat, i); } }
    /// a step that is already wanted changes state (or the graph keeps its ordering inputs): same numbering
    pub proof fn lemma_wacyc_keep(g: Graph, st0: Seq<BuildState>, i: int, v: BuildState)
        requires wacyc(g, st0), 0 <= i < st0.len(), st0[i] != BuildState::Unknown, v != BuildState::Unknown
        ensures wacyc(g, st0.update(i, v))
    {
        reveal(wacyc);
        let t = choose|t: spec_fn(int) -> nat| topo_w(g, st0, t);
        let st1 = st0.update(i, v);
        assert(topo_w(g, st1, t)) by {
            assert forall|b: int, j: int| 0 <= b < st1.len() && st1[b] != BuildState::Unknown && 0 <= j < gs::ordering_ins(gs::builds(g)[b]).len() implies
                (match gs::files(g)[ix(#[trigger] gs::ordering_ins(gs::builds(g)[b])[j])].input { Some(p) => t(ix(p)) < t(b), None => true }) by {
                assert(st0[b] != BuildState::Unknown);
            }
        }
    }
    /// a step becomes wanted after the producers of all its ordering inputs: it gets a number above every existing one
    pub proof fn lemma_wacyc_new(g: Graph, st0: Seq<BuildState>, i: int, v: BuildState)
        requires wacyc(g, st0), closed_u(g, st0), closed_ord(g, st0, i), 0 <= i < st0.len(), st0[i] == BuildState::Unknown, v != BuildState::Unknown,
            gs::wf_graph(g), st0.len() == gs::builds(g).len(),
        ensures wacyc(g, st0.update(i, v))
    {
        reveal(wacyc);
        let t = choose|t: spec_fn(int) -> nat| topo_w(g, st0, t);
        let n = st0.len() as nat;
        let top = tmax(t, n) + 1;
        let t1 = |x: int| if x == i { top as nat } else { t(x) };
        let st1 = st0.update(i, v);
        assert(topo_w(g, st1, t1)) by {
            assert forall|b: int, j: int| 0 <= b < st1.len() && st1[b] != BuildState::Unknown && 0 <= j < gs::ordering_ins(gs::builds(g)[b]).len() implies
                (match gs::files(g)[ix(#[trigger] gs::ordering_ins(gs::builds(g)[b])[j])].input { Some(p) => t1(ix(p)) < t1(b), None => true }) by {
                let f = gs::ordering_ins(gs::builds(g)[b])[j];
                if gs::files(g)[ix(f)].input is Some {
                    let p = gs::files(g)[ix(f)].input->Some_0;
                    if b == i {
                        assert(prod_wanted(g, st0, gs::ordering_ins(gs::builds(g)[i])[j]));
                        assert(ix(p) != i);
                        lemma_tmax(t, n, ix(p) as int);
                    } else {
                        assert(st0[b] != BuildState::Unknown);
                        assert(closed_ord(g, st0, b));
                        assert(prod_wanted(g, st0, gs::ordering_ins(gs::builds(g)[b])[j]));
                        assert(ix(p) != i);
                    }
                }
            }
        }
    }
    /// "for every acyclic graph": a topological numbering of the steps along ordering inputs (kept for reference; not used any more)
    pub open spec fn topo_ok(g: Graph, t: spec_fn(int) -> nat) -> bool {
        forall|b: int, j: int| 0 <= b < gs::builds(g).len() && 0 <= j < gs::ordering_ins(gs::builds(g)[b]).len() ==>
            match gs::files(g)[ix(#[trigger] gs::ordering_ins(gs::builds(g)[b])[j])].input { Some(p) => t(ix(p)) < t(b), None => true }
    }
    pub open spec fn acyclic(g: Graph) -> bool { exists|t: spec_fn(int) -> nat| topo_ok(g, t) }

    /// a state update that creates no Done build keeps live_inv, provided a build set to Want really waits
    pub proof fn lemma_live_update(g: Graph, st0: Seq<BuildState>, i: int, v: BuildState)
        requires live_inv(g, st0), 0 <= i < st0.len(), v != BuildState::Done,
            v == BuildState::Want ==> !producers_done(g, st0.update(i, v), i),
        ensures live_inv(g, st0.update(i, v))
    {
        let st1 = st0.update(i, v);
        assert forall|b: int| 0 <= b < st1.len() && #[trigger] st1[b] == BuildState::Want implies !producers_done(g, st1, b) by {
            if b != i {
                assert(st0[b] == BuildState::Want);
                let j = choose|j: int| 0 <= j < gs::ordering_ins(gs::builds(g)[b]).len() && !producer_done(g, st0, #[trigger] gs::ordering_ins(gs::builds(g)[b])[j]);
                assert(!producer_done(g, st1, gs::ordering_ins(gs::builds(g)[b])[j]));
            }
        }
    }
    pub proof fn lemma_qc_set(g: Graph, b0: BuildStates, b1: BuildStates, id: BuildId, build: Build, state: BuildState, pushq: bool)
        requires qc_except(b0, ix(id) as int), effect(b0, b1, id, build, state, pushq), ix(id) < st_of(b0).len(),
            state == BuildState::Queued ==> pushq && first_key(pools_of(b0), pool_name(build)) >= 0,
        ensures qc_inv(b1)
    {
        let pi = first_key(pools_of(b0), pool_name(build));
        lemma_first_key(pools_of(b0), pool_name(build));
        assert forall|d: BuildId| ix(d) < st_of(b1).len() implies
            ((#[trigger] st_of(b1)[ix(d)]) == BuildState::Ready ==> b1.ready@.contains(d))
            && (st_of(b1)[ix(d)] == BuildState::Queued ==> in_some_queue(b1, d)) by {
            if ix(d) == ix(id) {
                assert(d.0 == id.0);
                assert(d == id);
                if state == BuildState::Ready { assert(b1.ready@ == b0.ready@.push(id)); assert(b1.ready@[b0.ready@.len() as int] == id); }
                if state == BuildState::Queued {
                    assert(pools_of(b1)[pi].1.queued@ == pools_of(b0)[pi].1.queued@.push(id));
                    assert(pools_of(b1)[pi].1.queued@[pools_of(b0)[pi].1.queued@.len() as int] == id);
                }
            } else {
                assert(st_of(b1)[ix(d)] == st_of(b0)[ix(d)]);
                if st_of(b0)[ix(d)] == BuildState::Ready {
                    let k = choose|k: int| 0 <= k < b0.ready@.len() && b0.ready@[k] == d;
                    assert(b1.ready@[k] == d);
                }
                if st_of(b0)[ix(d)] == BuildState::Queued {
                    let j = choose|j: int| 0 <= j < pools_of(b0).len() && (#[trigger] pools_of(b0)[j]).1.queued@.contains(d);
                    let q = pools_of(b0)[j].1.queued@;
                    let k = choose|k: int| 0 <= k < q.len() && q[k] == d;
                    assert(pools_of(b1)[j].1.queued@[k] == d);
                }
            }
        }
    }
    /// popping the head of the ready queue leaves exactly that build "in hand"
    pub proof fn lemma_qc_pop_ready(b0: BuildStates, b1: BuildStates, id: BuildId)
        requires qc_inv(b0), b0.ready@.len() > 0, id == b0.ready@[0], b1.ready@ == b0.ready@.drop_first(),
            b1.states == b0.states, b1.pools == b0.pools,
        ensures qc_except(b1, ix(id) as int)
    {
        assert forall|d: BuildId| ix(d) < st_of(b1).len() && ix(d) != ix(id) implies
            ((#[trigger] st_of(b1)[ix(d)]) == BuildState::Ready ==> b1.ready@.contains(d))
            && (st_of(b1)[ix(d)] == BuildState::Queued ==> in_some_queue(b1, d)) by {
            if st_of(b0)[ix(d)] == BuildState::Ready {
                let k = choose|k: int| 0 <= k < b0.ready@.len() && b0.ready@[k] == d;
                assert(k != 0);
                assert(b1.ready@[k - 1] == d);
            }
            if st_of(b0)[ix(d)] == BuildState::Queued {
                let j = choose|j: int| 0 <= j < pools_of(b0).len() && (#[trigger] pools_of(b0)[j]).1.queued@.contains(d);
                assert(pools_of(b1)[j].1.queued@.contains(d));
            }
        }
    }
    pub proof fn lemma_qc_pop_queued(b0: BuildStates, b1: BuildStates, id: BuildId)
        requires qc_inv(b0), pop_effect(b0, b1, Some(id)),
        ensures qc_except(b1, ix(id) as int)
    {
        let pi = pop_ix(pools_of(b0));
        assert forall|d: BuildId| ix(d) < st_of(b1).len() && ix(d) != ix(id) implies
            ((#[trigger] st_of(b1)[ix(d)]) == BuildState::Ready ==> b1.ready@.contains(d))
            && (st_of(b1)[ix(d)] == BuildState::Queued ==> in_some_queue(b1, d)) by {
            if st_of(b0)[ix(d)] == BuildState::Queued {
                let j = choose|j: int| 0 <= j < pools_of(b0).len() && (#[trigger] pools_of(b0)[j]).1.queued@.contains(d);
                let q = pools_of(b0)[j].1.queued@;
                let k = choose|k: int| 0 <= k < q.len() && q[k] == d;
                if j == pi { assert(k != 0); assert(pools_of(b1)[j].1.queued@[k - 1] == d); }
                else { assert(pools_of(b1)[j].1.queued@[k] == d); }
            }
        }
    }
    /// qc_inv depends only on the states and the queues
    pub proof fn lemma_qc_weaken(bs: BuildStates, x: int)
        requires qc_inv(bs) ensures qc_except(bs, x) {}
    pub proof fn lemma_lq_same(g: Graph, b0: BuildStates, b1: BuildStates)
        requires lq(g, b0), same_bs(b0, b1)
        ensures lq(g, b1)
    {
        reveal(lq_x);
        assert forall|d: BuildId| ix(d) < st_of(b1).len() implies
            ((#[trigger] st_of(b1)[ix(d)]) == BuildState::Ready ==> b1.ready@.contains(d))
            && (st_of(b1)[ix(d)] == BuildState::Queued ==> in_some_queue(b1, d)) by {
            if st_of(b0)[ix(d)] == BuildState::Queued {
                let j = choose|j: int| 0 <= j < pools_of(b0).len() && (#[trigger] pools_of(b0)[j]).1.queued@.contains(d);
                assert(pool_same(pools_of(b1)[j], pools_of(b0)[j]));
                assert(pools_of(b1)[j].1.queued@.contains(d));
            }
        }
    }
    /// a transition of the build in hand (or of any build when none is in hand) that creates no Done build
    pub proof fn lemma_lq_set(g: Graph, b0: BuildStates, b1: BuildStates, id: BuildId, build: Build, state: BuildState, pushq: bool, x: int)
        requires lq_x(g, b0, x), x == -1 || x == ix(id), effect(b0, b1, id, build, state, pushq), ix(id) < st_of(b0).len(),
            state != BuildState::Done, state != BuildState::Unknown,
            state == BuildState::Want ==> !producers_done(g, st_of(b1), ix(id) as int),
            state == BuildState::Queued ==> pushq && first_key(pools_of(b0), pool_name(build)) >= 0,
            st_of(b0)[ix(id)] == BuildState::Unknown ==> closed_u(g, st_of(b0)) && closed_ord(g, st_of(b0), ix(id) as int)
                && gs::wf_graph(g) && st_of(b0).len() == gs::builds(g).len(),
        ensures lq(g, b1)
    {
        reveal(lq_x);
        if st_of(b0)[ix(id)] == BuildState::Unknown { lemma_wacyc_new(g, st_of(b0), ix(id) as int, state); }
        else { lemma_wacyc_keep(g, st_of(b0), ix(id) as int, state); }
        lemma_live_update(g, st_of(b0), ix(id) as int, state);
        lemma_qc_set(g, b0, b1, id, build, state, pushq);
    }
    pub proof fn lemma_lq_wacyc(g: Graph, bs: BuildStates)
        requires lq(g, bs) ensures wacyc(g, st_of(bs)) { reveal(lq_x); }
    pub proof fn lemma_fresh_lq(g: Graph, bs: BuildStates)
        requires fresh(bs)
        ensures lq(g, bs), closed_u(g, st_of(bs)), closed_v(g, st_of(bs))
    {
        reveal(lq_x); reveal(wacyc);
        let t = |x: int| 0nat;
        assert(topo_w(g, st_of(bs), t));
    }
    // --- ready_dependents and the liveness invariant
    /// every Want build among the dependents of the first ko files of `outs` has been collected (opaque: stepped by the lemmas below)
    #[verifier::opaque]
    pub open spec fn collected(g: Graph, st: Seq<BuildState>, deps: Set<BuildId>, outs: Seq<FileId>, ko: int) -> bool {
        forall|j: int, k: int| 0 <= j < ko && 0 <= k < gs::files(g)[ix(outs[j])].dependents@.len() ==>
            collected_one(st, deps, #[trigger] gs::files(g)[ix(outs[j])].dependents@[k])
    }
    pub open spec fn collected_one(st: Seq<BuildState>, deps: Set<BuildId>, d: BuildId) -> bool {
        ix(d) < st.len() && st[ix(d)] == BuildState::Want ==> deps.contains(d)
    }
    #[verifier::opaque]
    pub open spec fn collected_in(g: Graph, st: Seq<BuildState>, deps: Set<BuildId>, f: FileId, ki: int) -> bool {
        forall|k: int| 0 <= k < ki ==> collected_one(st, deps, #[trigger] gs::files(g)[ix(f)].dependents@[k])
    }
    pub proof fn lemma_collected_start(g: Graph, st: Seq<BuildState>, deps: Set<BuildId>, outs: Seq<FileId>)
        ensures collected(g, st, deps, outs, 0) { reveal(collected); }
    pub proof fn lemma_collected_in_start(g: Graph, st: Seq<BuildState>, deps: Set<BuildId>, f: FileId)
        ensures collected_in(g, st, deps, f, 0) { reveal(collected_in); }
    /// one more dependent looked at: skipped because it is not Want, or inserted
    pub proof fn lemma_collected_step(g: Graph, st: Seq<BuildState>, d0: Set<BuildId>, d1: Set<BuildId>, outs: Seq<FileId>, ko: int, f: FileId, ki: int)
        requires collected(g, st, d0, outs, ko), collected_in(g, st, d0, f, ki), 0 <= ki < gs::files(g)[ix(f)].dependents@.len(),
            d1 == d0 || d1 == d0.insert(gs::files(g)[ix(f)].dependents@[ki]),
            collected_one(st, d1, gs::files(g)[ix(f)].dependents@[ki]),
        ensures collected(g, st, d1, outs, ko), collected_in(g, st, d1, f, ki + 1)
    { reveal(collected); reveal(collected_in); }
    /// one more output done
    pub proof fn lemma_collected_next(g: Graph, st: Seq<BuildState>, deps: Set<BuildId>, outs: Seq<FileId>, ko: int)
        requires collected(g, st, deps, outs, ko), 0 <= ko < outs.len(),
            collected_in(g, st, deps, outs[ko], gs::files(g)[ix(outs[ko])].dependents@.len() as int),
        ensures collected(g, st, deps, outs, ko + 1)
    { reveal(collected); reveal(collected_in); }
    /// while the collected dependents are re-checked: a Want build waits for a producer unless its re-check is still to come
    #[verifier::opaque]
    pub open spec fn rd_pending(g: Graph, bs: BuildStates, rem: Seq<BuildId>) -> bool {
        qc_inv(bs) && wacyc(g, st_of(bs)) && forall|b: int| 0 <= b < st_of(bs).len() && #[trigger] st_of(bs)[b] == BuildState::Want ==>
            !producers_done(g, st_of(bs), b) || rem.contains(BuildId(b as u32))
    }
    pub proof fn lemma_rd_begin(g: Graph, b0: BuildStates, b1: BuildStates, id: BuildId, deps: Set<BuildId>, rem: Seq<BuildId>)
        requires lq_x(g, b0, ix(id) as int), gs::wf_graph(g), st_of(b0).len() == gs::builds(g).len(), ix(id) < st_of(b0).len(),
            st_of(b0)[ix(id)] != BuildState::Unknown,
            effect(b0, b1, id, gs::builds(g)[ix(id)], BuildState::Done, false), deps_complete(g),
            collected(g, st_of(b1), deps, gs::builds(g)[ix(id)].outs.ids@, gs::builds(g)[ix(id)].outs.ids@.len() as int),
            forall|x: BuildId| #[trigger] rem.contains(x) == deps.contains(x),
        ensures rd_pending(g, b1, rem)
    {
        reveal(lq_x); reveal(rd_pending); reveal(collected); reveal(deps_complete);
        let st0 = st_of(b0); let st1 = st_of(b1);
        let i = ix(id);
        let outs = gs::builds(g)[i].outs.ids@;
        lemma_wacyc_keep(g, st0, i as int, BuildState::Done);
        lemma_qc_set(g, b0, b1, id, gs::builds(g)[i], BuildState::Done, false);
        assert forall|b: int| 0 <= b < st1.len() && #[trigger] st1[b] == BuildState::Want implies
            !producers_done(g, st1, b) || rem.contains(BuildId(b as u32)) by {
            assert(b != i);
            assert(st0[b] == BuildState::Want);
            let bd = gs::builds(g)[b];
            let j = choose|j: int| 0 <= j < gs::ordering_ins(bd).len() && !producer_done(g, st0, #[trigger] gs::ordering_ins(bd)[j]);
            let f = gs::ordering_ins(bd)[j];
            assert(gs::wf_build(bd) && gs::build_ids_ok(g, bd));
            assert(f == bd.ins.ids@[j]);
            assert(gs::fid_ok(g, f));
            let p = gs::files(g)[ix(f)].input->Some_0;
            if ix(p) != i {
                assert(st1[ix(p)] == st0[ix(p)]);
                assert(!producer_done(g, st1, gs::ordering_ins(bd)[j]));
            } else {
                // f is an output of the finished build, so b is among f's dependents and was collected
                assert(p.0 == id.0); assert(p == id);
                let fi = ix(f) as int;
                assert(gs::files(g)[fi].input == Some(id));
                assert(FileId(fi as u32) == f) by { assert(f.0 as int == fi); }
                assert(outs.contains(f));
                let jo = choose|jo: int| 0 <= jo < outs.len() && outs[jo] == f;
                let dl = gs::files(g)[ix(f)].dependents@;
                assert(dl.contains(BuildId(b as u32)));
                let k = choose|k: int| 0 <= k < dl.len() && dl[k] == BuildId(b as u32);
                assert(collected_one(st1, deps, gs::files(g)[ix(outs[jo])].dependents@[k]));
                assert(ix(BuildId(b as u32)) == b);
                assert(deps.contains(BuildId(b as u32)));
            }
        }
    }
    pub proof fn lemma_rd_skip(g: Graph, bs: BuildStates, rem: Seq<BuildId>, d: BuildId)
        requires rd_pending(g, bs, rem), rem.len() > 0, d == rem[0], ix(d) < st_of(bs).len(), st_of(bs).len() < 0x1_0000_0000,
            st_of(bs)[ix(d)] == BuildState::Want ==> !producers_done(g, st_of(bs), ix(d) as int),
        ensures rd_pending(g, bs, rem.drop_first())
    {
        reveal(rd_pending);
        assert forall|b: int| 0 <= b < st_of(bs).len() && #[trigger] st_of(bs)[b] == BuildState::Want implies
            !producers_done(g, st_of(bs), b) || rem.drop_first().contains(BuildId(b as u32)) by {
            if producers_done(g, st_of(bs), b) {
                let k = choose|k: int| 0 <= k < rem.len() && rem[k] == BuildId(b as u32);
                assert(ix(BuildId(b as u32)) == b);
                assert(k != 0);
                assert(rem.drop_first()[k - 1] == BuildId(b as u32));
            }
        }
    }
    pub proof fn lemma_rd_ready(g: Graph, b0: BuildStates, b1: BuildStates, rem: Seq<BuildId>, d: BuildId, build: Build)
        requires rd_pending(g, b0, rem), rem.len() > 0, d == rem[0], ix(d) < st_of(b0).len(), st_of(b0).len() < 0x1_0000_0000,
            st_of(b0)[ix(d)] == BuildState::Want,
            effect(b0, b1, d, build, BuildState::Ready, false),
        ensures rd_pending(g, b1, rem.drop_first())
    {
        reveal(rd_pending);
        lemma_qc_weaken(b0, ix(d) as int);
        lemma_wacyc_keep(g, st_of(b0), ix(d) as int, BuildState::Ready);
        lemma_qc_set(g, b0, b1, d, build, BuildState::Ready, false);
        let st0 = st_of(b0); let st1 = st_of(b1);
        assert forall|b: int| 0 <= b < st1.len() && #[trigger] st1[b] == BuildState::Want implies
            !producers_done(g, st1, b) || rem.drop_first().contains(BuildId(b as u32)) by {
            assert(b != ix(d));
            assert(st0[b] == BuildState::Want);
            if producers_done(g, st0, b) {
                let k = choose|k: int| 0 <= k < rem.len() && rem[k] == BuildId(b as u32);
                assert(ix(BuildId(b as u32)) == b);
                assert(k != 0);
                assert(rem.drop_first()[k - 1] == BuildId(b as u32));
            } else {
                let j = choose|j: int| 0 <= j < gs::ordering_ins(gs::builds(g)[b]).len() && !producer_done(g, st0, #[trigger] gs::ordering_ins(gs::builds(g)[b])[j]);
                assert(!producer_done(g, st1, gs::ordering_ins(gs::builds(g)[b])[j]));
            }
        }
    }
    pub proof fn lemma_rd_end(g: Graph, bs: BuildStates, rem: Seq<BuildId>)
        requires rd_pending(g, bs, rem), rem.len() == 0
        ensures lq(g, bs)
    { reveal(rd_pending); reveal(lq_x); }
    /// everything the liveness argument needs from the graph survives a finished command's changes to it
    pub open spec fn live_graph(g: Graph) -> bool { deps_complete(g) }
    pub proof fn lemma_live_ext(g0: Graph, g1: Graph, bs: BuildStates, x: int)
        requires lq_x(g0, bs, x), closed_u(g0, st_of(bs)), live_graph(g0), gs::graph_ext(g0, g1), gs::wf_graph(g0), st_of(bs).len() == gs::builds(g0).len()
        ensures lq_x(g1, bs, x), closed_u(g1, st_of(bs)), live_graph(g1)
    {
        reveal(lq_x); reveal(deps_complete);
        lemma_live_graph_ext(g0, g1, st_of(bs));
        let st = st_of(bs);
        assert forall|b: int, j: int| 0 <= b < gs::builds(g1).len() && 0 <= j < gs::ordering_ins(gs::builds(g1)[b]).len() implies
            gs::files(g1)[ix(#[trigger] gs::ordering_ins(gs::builds(g1)[b])[j])].dependents@.contains(BuildId(b as u32))
            && (b < st.len() && st[b] != BuildState::Unknown ==> prod_wanted(g1, st, gs::ordering_ins(gs::builds(g1)[b])[j])) by {
            assert(gs::builds(g1)[b].ins == gs::builds(g0)[b].ins);
            assert(gs::wf_build(gs::builds(g0)[b]) && gs::build_ids_ok(g0, gs::builds(g0)[b]));
            let f = gs::ordering_ins(gs::builds(g0)[b])[j];
            assert(f == gs::builds(g0)[b].ins.ids@[j]);
            assert(gs::fid_ok(g0, f));
            assert(gs::files(g1)[ix(f)].dependents == gs::files(g0)[ix(f)].dependents);
            if b < st.len() && st[b] != BuildState::Unknown { assert(closed_ord(g0, st, b)); assert(prod_wanted(g0, st, gs::ordering_ins(gs::builds(g0)[b])[j])); }
        }
        reveal(wacyc);
        let t = choose|t: spec_fn(int) -> nat| topo_w(g0, st, t);
        assert(topo_w(g1, st, t)) by {
            assert forall|b: int, j: int| 0 <= b < st.len() && st[b] != BuildState::Unknown && 0 <= j < gs::ordering_ins(gs::builds(g1)[b]).len() implies
                (match gs::files(g1)[ix(#[trigger] gs::ordering_ins(gs::builds(g1)[b])[j])].input { Some(p) => t(ix(p)) < t(b), None => true }) by {
                assert(gs::builds(g1)[b].ins == gs::builds(g0)[b].ins);
                assert(gs::wf_build(gs::builds(g0)[b]) && gs::build_ids_ok(g0, gs::builds(g0)[b]));
                let f = gs::ordering_ins(gs::builds(g0)[b])[j];
                assert(f == gs::builds(g0)[b].ins.ids@[j]);
                assert(gs::fid_ok(g0, f));
            }
        }
    }
    // --- C06(a): the scheduler cannot stall
    pub proof fn lemma_want_chain(g: Graph, st: Seq<BuildState>, t: spec_fn(int) -> nat, b: int, n: nat)
        requires live_inv(g, st), closed_u(g, st), topo_w(g, st, t), gs::wf_graph(g), st.len() == gs::builds(g).len(),
            forall|i: int| 0 <= i < st.len() ==> (#[trigger] st[i]) == BuildState::Unknown || st[i] == BuildState::Want || st[i] == BuildState::Done,
            0 <= b < st.len(), st[b] == BuildState::Want, t(b) <= n,
        ensures false
        decreases n
    {
        let bd = gs::builds(g)[b];
        let j = choose|j: int| 0 <= j < gs::ordering_ins(bd).len() && !producer_done(g, st, #[trigger] gs::ordering_ins(bd)[j]);
        let f = gs::ordering_ins(bd)[j];
        assert(gs::wf_build(bd) && gs::build_ids_ok(g, bd));
        assert(f == bd.ins.ids@[j]);
        assert(gs::fid_ok(g, f));
        assert(closed_ord(g, st, b));
        assert(prod_wanted(g, st, gs::ordering_ins(bd)[j]));
        let p = gs::files(g)[ix(f)].input->Some_0;
        assert(st[ix(p)] == BuildState::Want);
        assert(t(ix(p)) < t(b));
        lemma_want_chain(g, st, t, ix(p) as int, (n - 1) as nat);
    }
    proof fn lemma_stall_no_running(bs: BuildStates, r: crate::task::Runner)
        requires runner_inv(bs, r), crate::rs::live(r).len() == 0, st_of(bs).len() < 0x1_0000_0000
        ensures forall|i: int| 0 <= i < st_of(bs).len() ==> #[trigger] st_of(bs)[i] != BuildState::Running
    {
        let st = st_of(bs);
        assert forall|i: int| 0 <= i < st.len() implies #[trigger] st[i] != BuildState::Running by {
            if st[i] == BuildState::Running {
                let d = BuildId(i as u32);
                assert(ix(d) == i);
                assert(crate::rs::live(r).contains(d));
                assert(crate::rs::live(r).len() > 0) by { vstd::set_lib::lemma_set_empty_equivalency_len(crate::rs::live(r)); }
            }
        }
    }
    proof fn lemma_stall_no_queued(g: Graph, bs: BuildStates, i: int)
        requires bs_inv(g, bs), qc_inv(bs), no_eligible(bs), 0 <= i < st_of(bs).len(), st_of(bs)[i] == BuildState::Queued,
            forall|k: int| 0 <= k < st_of(bs).len() ==> #[trigger] st_of(bs)[k] != BuildState::Running,
        ensures false
    {
        let st = st_of(bs);
        let d = BuildId(i as u32);
        assert(ix(d) == i);
        assert(in_some_queue(bs, d));
        let j = choose|j: int| 0 <= j < pools_of(bs).len() && (#[trigger] pools_of(bs)[j]).1.queued@.contains(d);
        lemma_count_none(st, running_in(g, bs, j));
        assert(eligible(pools_of(bs)[j].1));
    }
    pub proof fn lemma_no_stall(g: Graph, bs: BuildStates, r: crate::task::Runner)
        requires bs_inv(g, bs), lq(g, bs), closed_u(g, st_of(bs)), runner_inv(bs, r),
            crate::rs::live(r).len() == 0, bs.ready@.len() == 0, no_eligible(bs), no_failed(st_of(bs)), bs.total_pending > 0,
        ensures false
    {
        reveal(lq_x);
        let st = st_of(bs);
        lemma_stall_no_running(bs, r);
        assert forall|i: int| 0 <= i < st.len() implies (#[trigger] st[i]) == BuildState::Unknown || st[i] == BuildState::Want || st[i] == BuildState::Done by {
            let d = BuildId(i as u32);
            assert(ix(d) == i);
            if st[i] == BuildState::Ready { assert(bs.ready@.contains(d)); }
            if st[i] == BuildState::Queued { lemma_stall_no_queued(g, bs, i); }
        }
        // something is pending, so some build is Want
        if forall|i: int| 0 <= i < st.len() ==> !is_pending()(i, #[trigger] st[i]) { lemma_count_none(st, is_pending()); }
        let b = choose|i: int| 0 <= i < st.len() && is_pending()(i, #[trigger] st[i]);
        assert(st[b] == BuildState::Want);
        reveal(wacyc);
        let t = choose|t: spec_fn(int) -> nat| topo_w(g, st, t);
        lemma_want_chain(g, st, t, b, t(b));
    }
    // --- the bundle Work::run carries: liveness invariant (build x in hand), closure of the wanted set, graph facts
    #[verifier::opaque]
    pub open spec fn lv(g: Graph, bs: BuildStates, x: int) -> bool { lq_x(g, bs, x) && closed_u(g, st_of(bs)) && live_graph(g) }
    pub open spec fn no_eligible(bs: BuildStates) -> bool {
        forall|j: int| 0 <= j < pools_of(bs).len() ==> !eligible((#[trigger] pools_of(bs)[j]).1)
    }
    pub proof fn lemma_lv_intro(g: Graph, bs: BuildStates)
        requires lq(g, bs), closed_u(g, st_of(bs)), live_graph(g) ensures lv(g, bs, -1) { reveal(lv); }
    pub proof fn lemma_lv_elim(g: Graph, bs: BuildStates)
        requires lv(g, bs, -1) ensures lq(g, bs), closed_u(g, st_of(bs)), live_graph(g) { reveal(lv); }
    pub proof fn lemma_lv_hand(g: Graph, bs: BuildStates, x: int)
        requires lv(g, bs, -1) ensures lv(g, bs, x), lq_x(g, bs, x), deps_complete(g) { reveal(lv); reveal(lq_x); }
    /// what a pop leaves: the popped build in hand, or nothing changed
    pub open spec fn lv_pop(g: Graph, b1: BuildStates, r: Option<BuildId>) -> bool {
        match r { Some(id) => lv(g, b1, ix(id) as int), None => lv(g, b1, -1) }
    }
    pub proof fn lemma_lv_open(g: Graph, bs: BuildStates, x: int)
        requires lv(g, bs, x) ensures lq_x(g, bs, x), deps_complete(g) { reveal(lv); }
    pub proof fn lemma_lv_pop_queued(g: Graph, b0: BuildStates, b1: BuildStates, r: Option<BuildId>)
        requires lv(g, b0, -1), pop_effect(b0, b1, r)
        ensures lv_pop(g, b1, r)
    {
        reveal(lv); reveal(lq_x);
        match r {
            Some(id) => { lemma_qc_pop_queued(b0, b1, id); }
            None => {
                assert forall|d: BuildId| ix(d) < st_of(b1).len() implies
                    ((#[trigger] st_of(b1)[ix(d)]) == BuildState::Ready ==> b1.ready@.contains(d))
                    && (st_of(b1)[ix(d)] == BuildState::Queued ==> in_some_queue(b1, d)) by {
                    if st_of(b0)[ix(d)] == BuildState::Queued {
                        let j = choose|j: int| 0 <= j < pools_of(b0).len() && (#[trigger] pools_of(b0)[j]).1.queued@.contains(d);
                        assert(pools_of(b1)[j].1.queued@.contains(d));
                    }
                }
            }
        }
    }
    pub proof fn lemma_lv_pop_ready(g: Graph, b0: BuildStates, b1: BuildStates, r: Option<BuildId>)
        requires lv(g, b0, -1), pop_ready_rel(b0, b1, r)
        ensures lv_pop(g, b1, r)
    {
        reveal(lv); reveal(lq_x);
        match r {
            Some(id) => { lemma_qc_pop_ready(b0, b1, id); }
            None => {
                assert forall|d: BuildId| ix(d) < st_of(b1).len() implies
                    ((#[trigger] st_of(b1)[ix(d)]) == BuildState::Ready ==> b1.ready@.contains(d))
                    && (st_of(b1)[ix(d)] == BuildState::Queued ==> in_some_queue(b1, d)) by {
                    if st_of(b0)[ix(d)] == BuildState::Queued {
                        let j = choose|j: int| 0 <= j < pools_of(b0).len() && (#[trigger] pools_of(b0)[j]).1.queued@.contains(d);
                        assert(pools_of(b1)[j].1.queued@.contains(d));
                    }
                }
            }
        }
    }
    /// a transition of an already wanted build that creates neither a Done nor a Want build
    pub proof fn lemma_lv_set(g: Graph, b0: BuildStates, b1: BuildStates, id: BuildId, build: Build, state: BuildState, pushq: bool, x: int)
        requires lv(g, b0, x), x == -1 || x == ix(id), effect(b0, b1, id, build, state, pushq), ix(id) < st_of(b0).len(),
            st_of(b0)[ix(id)] != BuildState::Unknown,
            state == BuildState::Queued || state == BuildState::Running || state == BuildState::Failed,
            state == BuildState::Queued ==> pushq && first_key(pools_of(b0), pool_name(build)) >= 0,
        ensures lv(g, b1, -1)
    {
        reveal(lv);
        lemma_lq_set(g, b0, b1, id, build, state, pushq, x);
        assert(closed_ord(g, st_of(b0), ix(id) as int));
        lemma_closed_u_set(g, b0, b1, ix(id) as int, state);
    }
    pub proof fn lemma_lv_rd(g: Graph, b0: BuildStates, b1: BuildStates, id: BuildId)
        requires lv(g, b0, ix(id) as int), rd_effect(b0, b1, id), lq(g, b1), ix(id) < st_of(b0).len(), st_of(b0)[ix(id)] != BuildState::Unknown
        ensures lv(g, b1, -1)
    {
        reveal(lv);
        let s0 = st_of(b0); let s1 = st_of(b1);
        assert forall|b: int| 0 <= b < s1.len() && #[trigger] s1[b] != BuildState::Unknown implies closed_ord(g, s1, b) by {
            assert(s0[b] != BuildState::Unknown);
            assert(closed_ord(g, s0, b));
            assert forall|j: int| 0 <= j < gs::ordering_ins(gs::builds(g)[b]).len() implies prod_wanted(g, s1, #[trigger] gs::ordering_ins(gs::builds(g)[b])[j]) by {
                assert(prod_wanted(g, s0, gs::ordering_ins(gs::builds(g)[b])[j]));
            }
        }
    }
    pub proof fn lemma_lv_ext(g0: Graph, g1: Graph, bs: BuildStates, x: int)
        requires lv(g0, bs, x), gs::graph_ext(g0, g1), gs::wf_graph(g0), st_of(bs).len() == gs::builds(g0).len()
        ensures lv(g1, bs, x)
    { reveal(lv); lemma_live_ext(g0, g1, bs, x); }
    pub proof fn lemma_lv_stall(g: Graph, bs: BuildStates, r: crate::task::Runner)
        requires bs_inv(g, bs), lv(g, bs, -1), runner_inv(bs, r), crate::rs::live(r).len() == 0, bs.ready@.len() == 0,
            no_eligible(bs), no_failed(st_of(bs)), bs.total_pending > 0,
        ensures false
    {
        reveal(lv);
        lemma_no_stall(g, bs, r);
    }
    pub proof fn lemma_live_graph_ext(g0: Graph, g1: Graph, st: Seq<BuildState>)
        requires live_inv(g0, st), gs::graph_ext(g0, g1), gs::wf_graph(g0), st.len() == gs::builds(g0).len()
        ensures live_inv(g1, st)
    {
        assert forall|b: int| 0 <= b < st.len() && #[trigger] st[b] == BuildState::Want implies !producers_done(g1, st, b) by {
            let j = choose|j: int| 0 <= j < gs::ordering_ins(gs::builds(g0)[b]).len() && !producer_done(g0, st, #[trigger] gs::ordering_ins(gs::builds(g0)[b])[j]);
            assert(gs::builds(g1)[b].ins == gs::builds(g0)[b].ins);
            assert(gs::wf_build(gs::builds(g0)[b]) && gs::build_ids_ok(g0, gs::builds(g0)[b]));
            let f = gs::ordering_ins(gs::builds(g0)[b])[j];
            assert(f == gs::builds(g0)[b].ins.ids@[j]);
            assert(gs::fid_ok(g0, f));
            assert(gs::files(g1)[ix(f)].input == gs::files(g0)[ix(f)].input);
            assert(!producer_done(g1, st, gs::ordering_ins(gs::builds(g1)[b])[j]));
        }
    }
    }
}
