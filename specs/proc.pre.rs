// ---- proc unit (C05/C01: wait-status decoding) ----------------------------------------------------------
verus! {
#[verifier::external_type_specification]
#[verifier::external_body]
pub struct ExExitStatus(std::process::ExitStatus);
/// the raw wait status an ExitStatus was made from
pub uninterp spec fn vx_exit_raw(s: std::process::ExitStatus) -> i32;
/// R9 wrappers for `ExitStatusExt::{from_raw, signal}` and `ExitStatus::code` (std's documented meaning on unix, TRUSTED)
#[verifier::external_body]
pub fn vx_exit_from_raw(raw: i32) -> (r: std::process::ExitStatus)
    ensures vx_exit_raw(r) == raw
{ std::os::unix::process::ExitStatusExt::from_raw(raw) }
#[verifier::external_body]
pub fn vx_exit_signal(s: &std::process::ExitStatus) -> (r: Option<i32>)
    ensures r == (if crate::libc::wifsignaled(vx_exit_raw(*s)) { Some(crate::libc::wtermsig(vx_exit_raw(*s))) } else { None })
{ std::os::unix::process::ExitStatusExt::signal(s) }
#[verifier::external_body]
pub fn vx_exit_code(s: &std::process::ExitStatus) -> (r: Option<i32>)
    ensures r == (if crate::libc::wifexited(vx_exit_raw(*s)) { Some(crate::libc::wexitstatus(vx_exit_raw(*s))) } else { None })
{ s.code() }
pub assume_specification [std::process::ExitStatus::success] (s: &std::process::ExitStatus) -> (r: bool)
    ensures r == (crate::libc::wifexited(vx_exit_raw(*s)) && crate::libc::wexitstatus(vx_exit_raw(*s)) == 0);
pub assume_specification [std::string::String::as_bytes] (s: &std::string::String) -> (r: &[u8])
    ensures r@ == crate::vx_utf8(s@);
#[verifier::external_body]
pub fn vx_drop_file(f: std::fs::File) { drop(f) }
}
pub mod px {
    use vstd::prelude::*;
    use crate::process::Termination;
    use crate::libc;
    verus! {
    /// C05/C16: exit status 0 is success, SIGINT is an interruption, anything else (other status, other signal) a failure
    pub open spec fn decode(s: i32) -> Termination {
        if libc::wifexited(s) && libc::wexitstatus(s) == 0 { Termination::Success }
        else if libc::wifsignaled(s) && libc::wtermsig(s) == libc::SIGINT { Termination::Interrupted }
        else { Termination::Failure }
    }
    }
}
