// ---- trusted byte-level model of str/String (units render, perr) ------------------------------------------
// vx_utf8 (str.pre.rs) is the utf-8 encoding of a string's chars.  Char boundaries are defined on those bytes exactly as
// core::str::is_char_boundary does: 0, len, or a byte that is not a continuation byte (0b10xxxxxx).
pub mod rn {
    use vstd::prelude::*;
    use crate::vx_utf8;
    verus! {
    pub open spec fn blen(s: Seq<char>) -> int { vx_utf8(s).len() as int }
    pub open spec fn bnd(b: Seq<u8>, i: int) -> bool {
        i == 0 || i == b.len() || (0 < i < b.len() && (b[i] < 128 || b[i] >= 192))
    }
    pub open spec fn ascii(s: Seq<char>) -> bool { forall|i: int| 0 <= i < s.len() ==> (#[trigger] s[i] as u32) < 128 }
    /// TRUSTED: utf-8 encodes an ASCII string one byte per char, and concatenation char-wise
    pub axiom fn ax_ascii_len(s: Seq<char>)
        requires ascii(s)
        ensures vx_utf8(s).len() == s.len();
    pub axiom fn ax_utf8_empty()
        ensures vx_utf8(Seq::<char>::empty()).len() == 0;
    pub proof fn lemma_target(sum: int, total: int, b: int)
        requires 0 <= sum <= total, total > 0, b >= 0
        ensures 0 <= sum * b <= total * b, sum * b / total <= b, sum == total ==> sum * b / total == b, 0 <= sum * b / total
    {
        assert(0 <= sum * b <= total * b) by (nonlinear_arith) requires 0 <= sum <= total, b >= 0;
        assert(sum * b / total <= b) by (nonlinear_arith) requires 0 <= sum * b <= total * b, total > 0, b >= 0;
        assert(0 <= sum * b / total) by (nonlinear_arith) requires 0 <= sum * b, total > 0;
        if sum == total { assert(total * b / total == b) by (nonlinear_arith) requires total > 0; }
    }
    }
}
verus! {
/// R9 wrappers: same body as the std call they rename; only the contract (what std documents) is new
pub trait VxStrB {
    spec fn vx_sv(&self) -> Seq<char>;
    fn vx_blen(&self) -> (r: usize) ensures r == crate::rn::blen(self.vx_sv()), r <= isize::MAX;
    fn vx_is_char_boundary(&self, i: usize) -> (r: bool) ensures r == crate::rn::bnd(vx_utf8(self.vx_sv()), i as int);
    /// `&s[..n]`: panics unless n is a char boundary (n <= len)
    fn vx_prefix(&self, n: usize) -> (r: &str)
        requires n <= crate::rn::blen(self.vx_sv()), crate::rn::bnd(vx_utf8(self.vx_sv()), n as int)
        ensures vx_utf8(r@) == vx_utf8(self.vx_sv()).take(n as int);
    /// `&s[n..]`: panics unless n is a char boundary (n <= len)
    fn vx_suffix(&self, n: usize) -> (r: &str)
        requires n <= crate::rn::blen(self.vx_sv()), crate::rn::bnd(vx_utf8(self.vx_sv()), n as int)
        ensures vx_utf8(r@) == vx_utf8(self.vx_sv()).skip(n as int);
    fn vx_to_owned(&self) -> (r: String) ensures r@ == self.vx_sv();
    fn vx_repeat(&self, n: usize) -> (r: String)
        requires crate::rn::blen(self.vx_sv()) * n <= usize::MAX
        ensures crate::rn::blen(r@) == crate::rn::blen(self.vx_sv()) * n;
}
impl VxStrB for str {
    open spec fn vx_sv(&self) -> Seq<char> { self@ }
    #[verifier::external_body] fn vx_blen(&self) -> (r: usize) { self.len() }
    #[verifier::external_body] fn vx_is_char_boundary(&self, i: usize) -> (r: bool) { self.is_char_boundary(i) }
    #[verifier::external_body] fn vx_prefix(&self, n: usize) -> (r: &str) { &self[..n] }
    #[verifier::external_body] fn vx_suffix(&self, n: usize) -> (r: &str) { &self[n..] }
    #[verifier::external_body] fn vx_to_owned(&self) -> (r: String) { self.to_owned() }
    #[verifier::external_body] fn vx_repeat(&self, n: usize) -> (r: String) { self.repeat(n) }
}
pub trait VxStringB {
    spec fn vx_sv2(&self) -> Seq<char>;
    fn vx_slen(&self) -> (r: usize) ensures r == crate::rn::blen(self.vx_sv2()), r <= isize::MAX;
    /// String::truncate: no effect if n > len, otherwise panics unless n is a char boundary
    fn vx_truncate(&mut self, n: usize)
        requires n > crate::rn::blen(old(self).vx_sv2()) || crate::rn::bnd(vx_utf8(old(self).vx_sv2()), n as int)
        ensures vx_utf8(final(self).vx_sv2()) == (if n <= crate::rn::blen(old(self).vx_sv2()) { vx_utf8(old(self).vx_sv2()).take(n as int) } else { vx_utf8(old(self).vx_sv2()) });
    fn vx_push_str(&mut self, s: &str)
        ensures vx_utf8(final(self).vx_sv2()) == vx_utf8(old(self).vx_sv2()) + vx_utf8(s@);
    fn vx_push(&mut self, c: char)
        ensures vx_utf8(final(self).vx_sv2()) == vx_utf8(old(self).vx_sv2()) + vx_utf8(seq![c]);
    /// `s.extend(std::iter::repeat(c).take(n))`: n copies of c are appended (for an ASCII c that is n bytes: ax_ascii_len)
    fn vx_extend_repeat(&mut self, c: char, n: usize)
        ensures vx_utf8(final(self).vx_sv2()) == vx_utf8(old(self).vx_sv2()) + vx_utf8(Seq::new(n as nat, |i: int| c)),
            (c as u32) < 128 ==> vx_utf8(Seq::new(n as nat, |i: int| c)).len() == n;
    fn vx_as_str(&self) -> (r: &str) ensures r@ == self.vx_sv2();
}
impl VxStringB for String {
    open spec fn vx_sv2(&self) -> Seq<char> { self@ }
    #[verifier::external_body] fn vx_slen(&self) -> (r: usize) { self.len() }
    #[verifier::external_body] fn vx_truncate(&mut self, n: usize) { self.truncate(n) }
    #[verifier::external_body] fn vx_push_str(&mut self, s: &str) { self.push_str(s) }
    #[verifier::external_body] fn vx_push(&mut self, c: char) { self.push(c) }
    #[verifier::external_body] fn vx_extend_repeat(&mut self, c: char, n: usize) { self.extend(std::iter::repeat(c).take(n)) }
    #[verifier::external_body] fn vx_as_str(&self) -> (r: &str) { self.as_str() }
}
#[verifier::external_body]
pub fn vx_string_with_capacity(n: usize) -> (r: String) ensures r@ == Seq::<char>::empty() { String::with_capacity(n) }
}
