// ---- abstract view of task::Runner (same vocabulary as unit sched) and its TRUSTED link to the fields -------------
pub mod rs {
    use vstd::prelude::*;
    use crate::graph::BuildId;
    use crate::task::Runner;
    verus! {
    pub uninterp spec fn started(r: Runner) -> Set<BuildId>;
    pub uninterp spec fn live(r: Runner) -> Set<BuildId>;
    pub uninterp spec fn par(r: Runner) -> nat;
    pub uninterp spec fn succ(r: Runner) -> nat;
    /// TRUSTED representation: `running` counts the commands executing now (threads spawned by start whose completion
    /// wait has not returned yet); `parallelism` is -j
    pub axiom fn ax_runner_repr(r: Runner)
        ensures live(r).finite(), live(r).len() == r.running, par(r) == r.parallelism;
    }
}
pub mod tk {
    use vstd::prelude::*;
    verus! {
    /// trusted file-system view of one depfile: is it missing, what are its bytes (with the NUL appended)
    pub uninterp spec fn missing(path: &std::path::Path) -> bool;
    pub uninterp spec fn content(path: &std::path::Path) -> Seq<u8>;
    /// what depfile::parse makes of a buffer (None: parse error), and the flattening of its entries
    pub uninterp spec fn parsed_of(buf: Seq<u8>) -> Option<crate::task::VxParsedDeps>;
    pub uninterp spec fn flat_of(p: crate::task::VxParsedDeps) -> Seq<String>;
    /// C15: "A missing depfile counts as empty"; otherwise the prerequisites of all entries of the parsed file, in order
    pub open spec fn depfile_deps(path: &std::path::Path) -> Seq<String> {
        if missing(path) { Seq::empty() } else { match parsed_of(content(path)) { Some(p) => flat_of(p), None => Seq::empty() } }
    }
    }
}
verus! {
// derive(PartialEq) on Termination is structural equality (trusted: definition of the derive)
impl vstd::std_specs::cmp::PartialEqSpecImpl for crate::process::Termination {
    open spec fn obeys_eq_spec() -> bool { true }
    open spec fn eq_spec(&self, other: &crate::process::Termination) -> bool { *self == *other }
}
}
verus! {
pub assume_specification<T, E, F: FnOnce(E) -> T> [core::result::Result::<T, E>::unwrap_or_else] (r: Result<T, E>, f: F) -> (o: T)
    requires r is Err ==> f.requires((r->Err_0,)),
    ensures (match r { Ok(v) => o == v, Err(e) => f.ensures((e,), o) });
pub assume_specification [std::string::String::into_bytes] (s: std::string::String) -> (r: Vec<u8>)
    ensures r@ == crate::vx_utf8(s@);
}
