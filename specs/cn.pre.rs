// ---- canon unit (C13): byte-level spec of lexical canonicalisation -------------------------------------------
pub mod cn {
    use vstd::prelude::*;
    verus! {
    pub open spec fn sep(b: u8) -> bool { b == 47u8 || b == 92u8 }   // '/' or '\\'
    pub open spec const DOT: u8 = 46u8;
    /// end (exclusive) of the component starting at i, including its trailing separator if any
    pub open spec fn comp_end(s: Seq<u8>, i: int) -> int
        decreases s.len() - i
    {
        if i >= s.len() { s.len() as int } else if sep(s[i]) { i + 1 } else { comp_end(s, i + 1) }
    }
    /// is there a `..` component at i (followed by a separator or the end)?
    pub open spec fn dotdot_at(s: Seq<u8>, i: int) -> bool {
        i + 1 < s.len() && s[i] == DOT && s[i + 1] == DOT && (i + 2 >= s.len() || sep(s[i + 2]))
    }
    /// The canonicaliser as a function of (input, read position, output so far, stack of component starts in the output).
    /// One case per kind of component, in the words of the property: empty and `.` components are removed, `..` removes the
    /// preceding kept component or, if there is none, is kept (leading `..`), everything else is copied.
    pub proof fn lemma_comp_end(s: Seq<u8>, i: int)
        requires 0 <= i < s.len()
        ensures i < comp_end(s, i) <= s.len(),
            forall|j: int| i <= j < comp_end(s, i) - 1 ==> !sep(#[trigger] s[j]),
            comp_end(s, i) < s.len() ==> sep(s[comp_end(s, i) - 1]),
            !sep(s[comp_end(s, i) - 1]) ==> comp_end(s, i) == s.len(),
        decreases s.len() - i
    {
        if !sep(s[i]) { if i + 1 < s.len() { lemma_comp_end(s, i + 1); } else { assert(comp_end(s, i + 1) == s.len()); } }
    }
    #[via_fn]
    proof fn run_dec(s: Seq<u8>, src: int, out: Seq<u8>, st: Seq<usize>) {
        if 0 <= src < s.len() { lemma_comp_end(s, src); }
    }
    pub open spec fn run(s: Seq<u8>, src: int, out: Seq<u8>, st: Seq<usize>) -> Seq<u8>
        decreases s.len() + 3 - src via run_dec
    {
        if src < 0 || src >= s.len() { out }
        else if sep(s[src]) { run(s, src + 1, out, st) }                                           // empty component
        else if s[src] == DOT && src + 1 >= s.len() { out }                                         // trailing `.`
        else if s[src] == DOT && sep(s[src + 1]) { run(s, src + 2, out, st) }                       // `./`
        else if dotdot_at(s, src) {
            if st.len() > 0 { run(s, src + 3, out.take(st.last() as int), st.drop_last()) }               // `name/..`
            else { run(s, src + 3, out + seq![DOT, DOT] + (if src + 2 < s.len() { seq![s[src + 2]] } else { Seq::<u8>::empty() }), st) }   // leading `..`
        } else {
            let e = comp_end(s, src);
            run(s, e, out + s.subrange(src, e), st.push(out.len() as usize))                           // ordinary component
        }
    }
    pub open spec fn canon(s: Seq<u8>) -> Seq<u8> {
        let r = if s.len() > 0 && sep(s[0]) { run(s, 1, seq![s[0]], Seq::<usize>::empty()) } else { run(s, 0, Seq::<u8>::empty(), Seq::<usize>::empty()) };
        if r.len() == 0 { seq![DOT] } else { r }
    }
    pub open spec fn start(s: Seq<u8>) -> Seq<u8> {
        if s.len() > 0 && sep(s[0]) { run(s, 1, seq![s[0]], Seq::<usize>::empty()) } else { run(s, 0, Seq::<u8>::empty(), Seq::<usize>::empty()) }
    }
    /// e is the end of the component starting at i
    pub proof fn lemma_comp_end_is(s: Seq<u8>, i: int, e: int)
        requires 0 <= i < e <= s.len(), forall|j: int| i <= j < e - 1 ==> !sep(#[trigger] s[j]), sep(s[e - 1]) || e == s.len()
        ensures comp_end(s, i) == e
        decreases e - i
    {
        if i == e - 1 { if !sep(s[i]) { assert(comp_end(s, i + 1) == s.len()); } } else { lemma_comp_end_is(s, i + 1, e); }
    }
    pub proof fn lemma_ncomp_mono(s: Seq<u8>, a: int, b: int)
        requires a <= b
        ensures ncomp(s, a) <= ncomp(s, b)
        decreases b - a
    {
        if a < b { lemma_ncomp_mono(s, a, b - 1); }
    }
    /// sorted stack of output offsets
    pub open spec fn stack_ok(st: Seq<usize>, dst: int) -> bool {
        (forall|k: int| 0 <= k < st.len() ==> #[trigger] st[k] <= dst) && (forall|a: int, b: int| 0 <= a < b < st.len() ==> st[a] <= st[b])
    }
    // --- what the statement says about the result, as predicates on byte strings (used by the bounded adequacy check
    //     of the spec function `canon`, and available to lemmas)
    #[via_fn]
    proof fn canonical_from_dec(t: Seq<u8>, i: int, names_seen: bool) {
        if 0 <= i < t.len() { lemma_comp_end(t, i); }
    }
    /// from component start i on: no empty component, no `.` component, `..` only before the first name
    pub open spec fn canonical_from(t: Seq<u8>, i: int, names_seen: bool) -> bool
        decreases t.len() + 3 - i via canonical_from_dec
    {
        if i < 0 || i >= t.len() { true }
        else if sep(t[i]) { false }
        else if t[i] == DOT && (i + 1 >= t.len() || sep(t[i + 1])) { false }
        else if dotdot_at(t, i) { !names_seen && canonical_from(t, i + 3, false) }
        else { canonical_from(t, comp_end(t, i), true) }
    }
    pub open spec fn is_canonical(t: Seq<u8>) -> bool {
        t.len() > 0 && (t =~= seq![DOT] || canonical_from(t, if sep(t[0]) { 1 } else { 0 }, false))
    }
    // --- unbounded lemma: canonical strings are fixpoints of canon (half of idempotence; the other half, that every
    //     output is canonical, is only checked exhaustively up to a length bound)
    pub proof fn lemma_run_fix(t: Seq<u8>, i: int, ns: bool, st: Seq<usize>)
        requires 0 <= i, canonical_from(t, i, ns), ns || st.len() == 0
        ensures run(t, i, t.take(i), st) == t || i > t.len()
        decreases t.len() + 3 - i
    {
        if i >= t.len() {
            if i == t.len() { assert(t.take(i) =~= t); }
        } else {
            lemma_comp_end(t, i);
            if dotdot_at(t, i) {
                let out2 = t.take(i) + seq![DOT, DOT] + (if i + 2 < t.len() { seq![t[i + 2]] } else { Seq::<u8>::empty() });
                if i + 2 < t.len() {
                    assert(out2 =~= t.take(i + 3));
                    lemma_run_fix(t, i + 3, false, st);
                } else {
                    assert(out2 =~= t);
                    assert(run(t, i + 3, out2, st) == out2);
                }
            } else {
                let e = comp_end(t, i);
                assert(t.take(i) + t.subrange(i, e) =~= t.take(e));
                assert(!(t[i] == DOT && i + 1 >= t.len()) && !(t[i] == DOT && sep(t[i + 1])) && !sep(t[i]));
                lemma_run_fix(t, e, true, st.push(t.take(i).len() as usize));
                assert(run(t, i, t.take(i), st) == run(t, e, t.take(i) + t.subrange(i, e), st.push(t.take(i).len() as usize)));
            }
        }
    }
    pub proof fn lemma_canon_fix(t: Seq<u8>)
        requires is_canonical(t)
        ensures canon(t) == t
    {
        if t =~= seq![DOT] {
            assert(run(t, 0, Seq::<u8>::empty(), Seq::<usize>::empty()).len() == 0);
        } else if sep(t[0]) {
            assert(seq![t[0]] =~= t.take(1));
            lemma_run_fix(t, 1, false, Seq::<usize>::empty());
        } else {
            assert(Seq::<u8>::empty() =~= t.take(0));
            lemma_run_fix(t, 0, false, Seq::<usize>::empty());
        }
    }
    // --- unbounded lemma: every output of canon is in canonical form (the other half of idempotence)
    pub proof fn lemma_comp_end_shift(a: Seq<u8>, x: Seq<u8>, i: int)
        requires 0 <= i <= x.len()
        ensures comp_end(a + x, a.len() + i) == a.len() + comp_end(x, i)
        decreases x.len() - i
    {
        let t = a + x;
        if i < x.len() {
            assert(t[a.len() + i] == x[i]);
            if !sep(x[i]) { lemma_comp_end_shift(a, x, i + 1); }
        }
    }
    pub proof fn lemma_cf_shift(a: Seq<u8>, x: Seq<u8>, i: int, ns: bool)
        requires 0 <= i
        ensures canonical_from(a + x, a.len() + i, ns) == canonical_from(x, i, ns)
        decreases x.len() + 3 - i
    {
        let t = a + x;
        let n = a.len() as int;
        if i < x.len() {
            assert(t[n + i] == x[i]);
            if i + 1 < x.len() { assert(t[n + i + 1] == x[i + 1]); }
            if i + 2 < x.len() { assert(t[n + i + 2] == x[i + 2]); }
            assert(dotdot_at(t, n + i) == dotdot_at(x, i));
            if sep(x[i]) {
            } else if x[i] == DOT && (i + 1 >= x.len() || sep(x[i + 1])) {
            } else if dotdot_at(x, i) {
                lemma_cf_shift(a, x, i + 3, false);
            } else {
                lemma_comp_end(x, i);
                lemma_comp_end_shift(a, x, i);
                lemma_cf_shift(a, x, comp_end(x, i), true);
            }
        }
    }
    /// x may follow a canonical prefix in which a name has (ns) / has not yet been seen
    pub open spec fn cont_ok(x: Seq<u8>, ns: bool) -> bool { canonical_from(x, 0, ns) }
    /// pre is a canonical prefix ending at a component boundary: any such continuation keeps the whole canonical
    pub open spec fn good(pre: Seq<u8>, ns: bool, p: int) -> bool {
        forall|x: Seq<u8>| #[trigger] cont_ok(x, ns) ==> canonical_from(pre + x, p, false)
    }
    pub open spec fn pref(out: Seq<u8>, st: Seq<usize>, k: int) -> Seq<u8> { if 0 <= k < st.len() { out.take(st[k] as int) } else { out } }
    /// the output so far and every point the component stack can cut it back to are good prefixes
    pub open spec fn fam(out: Seq<u8>, st: Seq<usize>, p: int) -> bool {
        &&& 0 <= p <= out.len() && stack_ok(st, out.len() as int) && (forall|k: int| 0 <= k < st.len() ==> p <= #[trigger] st[k])
        &&& forall|k: int| 0 <= k <= st.len() ==> good(#[trigger] pref(out, st, k), k > 0, p)
    }
    /// an ordinary component (as `run` classifies it) may follow any good prefix
    pub proof fn lemma_ordinary_cont(s: Seq<u8>, src: int, x: Seq<u8>, ns: bool)
        requires 0 <= src < s.len(), !sep(s[src]), !(s[src] == DOT && src + 1 >= s.len()), !(s[src] == DOT && sep(s[src + 1])), !dotdot_at(s, src),
            comp_end(s, src) < s.len() || sep(s[comp_end(s, src) - 1]) || x.len() == 0,
            cont_ok(x, true) || x.len() == 0,
        ensures cont_ok(s.subrange(src, comp_end(s, src)) + x, ns)
    {
        lemma_comp_end(s, src);
        let e = comp_end(s, src);
        let c = s.subrange(src, e);
        let t = c + x;
        assert(t[0] == s[src]);
        if c.len() >= 2 { assert(t[1] == s[src + 1]); }
        if c.len() >= 3 { assert(t[2] == s[src + 2]); }
        // a component that starts with `.` has a second byte that is no separator; one that starts with `..` a third
        if s[src] == DOT { assert(!sep(s[src + 1])); assert(e >= src + 2) by { if e < src + 2 { assert(e == src + 1); } } }
        if s[src] == DOT && s[src + 1] == DOT { assert(src + 2 < s.len() && !sep(s[src + 2])); assert(e >= src + 3) by { if e < src + 3 { assert(e == src + 2); } } }
        assert(!dotdot_at(t, 0));
        assert(!sep(t[0]));
        assert(!(t[0] == DOT && (1 >= t.len() || sep(t[1])))) by { if t[0] == DOT { assert(c.len() >= 2); assert(t[1] == s[src + 1]); } }
        // the component ends where c ends
        if sep(c[c.len() - 1]) {
            assert forall|j: int| 0 <= j < c.len() - 1 implies !sep(#[trigger] t[j]) by { assert(t[j] == s[src + j]); }
            assert(t[c.len() - 1] == c[c.len() - 1]);
            lemma_comp_end_is(t, 0, c.len() as int);
            lemma_cf_shift(c, x, 0, true);
            assert(canonical_from(t, c.len() as int, true) == canonical_from(x, 0, true));
            if x.len() == 0 { assert(canonical_from(t, c.len() as int, true)); }
            assert(canonical_from(t, 0, ns) == canonical_from(t, comp_end(t, 0), true));
        } else {
            assert(x.len() == 0);
            assert(t =~= c);
            assert forall|j: int| 0 <= j < c.len() - 1 implies !sep(#[trigger] t[j]) by { assert(t[j] == s[src + j]); }
            lemma_comp_end_is(t, 0, t.len() as int);
            assert(canonical_from(t, t.len() as int, true));
            assert(canonical_from(t, 0, ns) == canonical_from(t, comp_end(t, 0), true));
        }
    }
    pub proof fn lemma_run_canon(s: Seq<u8>, src: int, out: Seq<u8>, st: Seq<usize>, p: int)
        requires 0 <= src, fam(out, st, p), out.len() <= src, s.len() <= usize::MAX
        ensures ({ let r = run(s, src, out, st); r.len() >= p && r.take(p) == out.take(p) && canonical_from(r, p, false) })
        decreases s.len() + 3 - src
    {
        let ns0 = st.len() > 0;
        assert(good(pref(out, st, st.len() as int), ns0, p));
        assert(pref(out, st, st.len() as int) == out);
        if src >= s.len() || (s[src] == DOT && src + 1 >= s.len()) {
            if src < s.len() && sep(s[src]) { lemma_run_canon(s, src + 1, out, st, p); } else {
                let e = Seq::<u8>::empty();
                assert(cont_ok(e, ns0));
                assert(out + e =~= out);
            }
        } else if sep(s[src]) {
            lemma_run_canon(s, src + 1, out, st, p);
        } else if s[src] == DOT && sep(s[src + 1]) {
            lemma_run_canon(s, src + 2, out, st, p);
        } else if dotdot_at(s, src) {
            if st.len() > 0 {
                let out2 = out.take(st.last() as int);
                let st2 = st.drop_last();
                assert(fam(out2, st2, p)) by {
                    assert forall|k: int| 0 <= k <= st2.len() implies good(#[trigger] pref(out2, st2, k), k > 0, p) by {
                        if k < st2.len() {
                            assert(st[k] <= st[st.len() - 1]);
                            assert(pref(out2, st2, k) =~= pref(out, st, k));
                        } else {
                            assert(pref(out2, st2, k) =~= pref(out, st, st.len() - 1));
                        }
                    }
                    assert(stack_ok(st2, out2.len() as int)) by {
                        assert forall|k: int| 0 <= k < st2.len() implies #[trigger] st2[k] <= out2.len() by { assert(st[k] <= st[st.len() - 1]); }
                    }
                }
                lemma_run_canon(s, src + 3, out2, st2, p);
                assert(out2.take(p) =~= out.take(p));
            } else {
                let dd = seq![DOT, DOT] + (if src + 2 < s.len() { seq![s[src + 2]] } else { Seq::<u8>::empty() });
                let out2 = out + seq![DOT, DOT] + (if src + 2 < s.len() { seq![s[src + 2]] } else { Seq::<u8>::empty() });
                assert(out2 =~= out + dd);
                if src + 2 < s.len() {
                    assert(fam(out2, st, p)) by {
                        assert forall|x: Seq<u8>| #[trigger] cont_ok(x, false) implies canonical_from(out2 + x, p, false) by {
                            let y = dd + x;
                            assert(y[0] == DOT && y[1] == DOT && y[2] == s[src + 2]);
                            lemma_cf_shift(dd, x, 0, false);
                            assert(cont_ok(y, false));
                            assert(out2 + x =~= out + y);
                        }
                        assert(pref(out2, st, 0) == out2);
                    }
                    lemma_run_canon(s, src + 3, out2, st, p);
                    assert(out2.take(p) =~= out.take(p));
                } else {
                    assert(dd.len() == 2 && dd[0] == DOT && dd[1] == DOT);
                    assert(dotdot_at(dd, 0));
                    assert(canonical_from(dd, 3, false));
                    assert(cont_ok(dd, false));
                    assert(run(s, src + 3, out2, st) == out2);
                    assert(out2.take(p) =~= out.take(p));
                }
            }
        } else {
            lemma_comp_end(s, src);
            let e = comp_end(s, src);
            let c = s.subrange(src, e);
            let out2 = out + c;
            let st2 = st.push(out.len() as usize);
            assert(out.len() as usize == out.len());
            assert(st2[st.len() as int] == out.len());
            assert(out2.take(p) =~= out.take(p));
            if e < s.len() || sep(s[e - 1]) {
                assert(fam(out2, st2, p)) by {
                    assert forall|k: int| 0 <= k <= st2.len() implies good(#[trigger] pref(out2, st2, k), k > 0, p) by {
                        if k < st.len() {
                            assert(pref(out2, st2, k) =~= pref(out, st, k));
                        } else if k == st.len() {
                            assert(pref(out2, st2, k) =~= out);
                        } else {
                            assert(pref(out2, st2, k) == out2);
                            assert forall|x: Seq<u8>| #[trigger] cont_ok(x, true) implies canonical_from(out2 + x, p, false) by {
                                lemma_ordinary_cont(s, src, x, ns0);
                                assert(out2 + x =~= out + (c + x));
                            }
                        }
                    }
                    assert(stack_ok(st2, out2.len() as int)) by {
                        assert forall|k: int| 0 <= k < st2.len() implies #[trigger] st2[k] <= out2.len() by { if k < st.len() { assert(st2[k] == st[k]); } }
                        assert forall|a: int, b: int| 0 <= a < b < st2.len() implies st2[a] <= st2[b] by { if b < st.len() { assert(st2[a] == st[a] && st2[b] == st[b]); } else { assert(st2[a] == st[a]); } }
                    }
                    assert forall|k: int| 0 <= k < st2.len() implies p <= #[trigger] st2[k] by { if k < st.len() { assert(st2[k] == st[k]); } }
                }
                lemma_run_canon(s, e, out2, st2, p);
            } else {
                // last component, no trailing separator: the run ends here
                lemma_ordinary_cont(s, src, Seq::<u8>::empty(), ns0);
                assert(c + Seq::<u8>::empty() =~= c);
                assert(run(s, e, out2, st2) == out2);
            }
        }
    }
    pub proof fn lemma_canon_canonical(s: Seq<u8>)
        requires 0 < s.len() <= usize::MAX
        ensures is_canonical(canon(s))
    {
        let st = Seq::<usize>::empty();
        if sep(s[0]) {
            let out = seq![s[0]];
            assert(fam(out, st, 1)) by {
                assert forall|x: Seq<u8>| #[trigger] cont_ok(x, false) implies canonical_from(out + x, 1, false) by { lemma_cf_shift(out, x, 0, false); }
                assert(pref(out, st, 0) == out);
            }
            lemma_run_canon(s, 1, out, st, 1);
            let r = run(s, 1, out, st);
            assert(r.take(1) =~= out);
            assert(r.take(1)[0] == r[0]);
            assert(r[0] == s[0]);
        } else {
            let out = Seq::<u8>::empty();
            assert(fam(out, st, 0)) by {
                assert forall|x: Seq<u8>| #[trigger] cont_ok(x, false) implies canonical_from(out + x, 0, false) by { assert(out + x =~= x); }
                assert(pref(out, st, 0) == out);
            }
            lemma_run_canon(s, 0, out, st, 0);
        }
    }
    /// C13: canonicalisation is idempotent (for every non-empty path)
    pub proof fn lemma_canon_idempotent(s: Seq<u8>)
        requires 0 < s.len() <= usize::MAX
        ensures canon(canon(s)) == canon(s)
    {
        lemma_canon_canonical(s);
        lemma_canon_fix(canon(s));
    }
    /// the location a path denotes, lexically: how many levels above the start (or root) it climbs, then which names it descends
    #[via_fn]
    proof fn loc_dec(t: Seq<u8>, i: int, ups: int, names: Seq<Seq<u8>>) {
        if 0 <= i < t.len() { lemma_comp_end(t, i); }
    }
    pub open spec fn name_at(t: Seq<u8>, i: int) -> Seq<u8> {
        let e = comp_end(t, i);
        if e > i && sep(t[e - 1]) { t.subrange(i, e - 1) } else { t.subrange(i, e) }
    }
    pub open spec fn loc(t: Seq<u8>, i: int, ups: int, names: Seq<Seq<u8>>) -> (int, Seq<Seq<u8>>)
        decreases t.len() + 3 - i via loc_dec
    {
        if i < 0 || i >= t.len() { (ups, names) }
        else if sep(t[i]) { loc(t, i + 1, ups, names) }
        else if t[i] == DOT && i + 1 >= t.len() { (ups, names) }
        else if t[i] == DOT && sep(t[i + 1]) { loc(t, i + 2, ups, names) }
        else if dotdot_at(t, i) { if names.len() > 0 { loc(t, i + 3, ups, names.drop_last()) } else { loc(t, i + 3, ups + 1, names) } }
        else { loc(t, comp_end(t, i), ups, names.push(name_at(t, i))) }
    }
    pub open spec fn rooted(t: Seq<u8>) -> bool { t.len() > 0 && sep(t[0]) }
    pub open spec fn location(t: Seq<u8>) -> (bool, (int, Seq<Seq<u8>>)) { (rooted(t), loc(t, 0, 0, Seq::<Seq<u8>>::empty())) }
    // --- unbounded lemma: canon(s) denotes the same lexical location as s
    pub open spec fn at_boundary(a: Seq<u8>) -> bool { a.len() == 0 || sep(a[a.len() - 1]) }
    pub proof fn lemma_comp_end_prefix(a: Seq<u8>, x: Seq<u8>, i: int)
        requires 0 <= i < a.len(), sep(a[a.len() - 1])
        ensures comp_end(a + x, i) == comp_end(a, i), comp_end(a, i) <= a.len()
        decreases a.len() - i
    {
        let t = a + x;
        assert(t[i] == a[i]);
        if !sep(a[i]) { lemma_comp_end_prefix(a, x, i + 1); }
    }
    /// scanning a + x where a ends at a component boundary = scanning a, then x with what a left
    pub proof fn lemma_loc_concat(a: Seq<u8>, x: Seq<u8>, i: int, u: int, n: Seq<Seq<u8>>)
        requires at_boundary(a), 0 <= i <= a.len()
        ensures loc(a + x, i, u, n) == loc(x, 0, loc(a, i, u, n).0, loc(a, i, u, n).1)
        decreases a.len() + 3 - i
    {
        let t = a + x;
        if i >= a.len() {
            // the scan of t continues in x: shift
            lemma_loc_shift(a, x, 0, u, n);
        } else {
            assert(t[i] == a[i]);
            if sep(a[i]) {
                lemma_loc_concat(a, x, i + 1, u, n);
            } else {
                // i is inside a component of a that ends with a separator inside a
                assert(i + 1 < a.len()) by { if i + 1 >= a.len() { assert(a[a.len() - 1] == a[i]); } }
                assert(t[i + 1] == a[i + 1]);
                if a[i] == DOT && sep(a[i + 1]) {
                    lemma_loc_concat(a, x, i + 2, u, n);
                } else if a[i] == DOT && a[i + 1] == DOT && i + 2 >= a.len() {
                    assert(a[a.len() - 1] == a[i + 1]);
                    assert(false);
                } else {
                    if i + 2 < a.len() { assert(t[i + 2] == a[i + 2]); }
                    assert(dotdot_at(t, i) == dotdot_at(a, i));
                    if dotdot_at(a, i) {
                        if n.len() > 0 { lemma_loc_concat(a, x, i + 3, u, n.drop_last()); } else { lemma_loc_concat(a, x, i + 3, u + 1, n); }
                    } else {
                        lemma_comp_end(a, i);
                        lemma_comp_end_prefix(a, x, i);
                        let e = comp_end(a, i);
                        assert(t.subrange(i, e) =~= a.subrange(i, e));
                        assert(t.subrange(i, e - 1) =~= a.subrange(i, e - 1));
                        assert(t[e - 1] == a[e - 1]);
                        assert(name_at(t, i) == name_at(a, i));
                        lemma_loc_concat(a, x, e, u, n.push(name_at(a, i)));
                    }
                }
            }
        }
    }
    pub proof fn lemma_loc_shift(a: Seq<u8>, x: Seq<u8>, i: int, u: int, n: Seq<Seq<u8>>)
        requires 0 <= i
        ensures loc(a + x, a.len() + i, u, n) == loc(x, i, u, n)
        decreases x.len() + 3 - i
    {
        let t = a + x;
        let m = a.len() as int;
        if i < x.len() {
            assert(t[m + i] == x[i]);
            if i + 1 < x.len() { assert(t[m + i + 1] == x[i + 1]); }
            if i + 2 < x.len() { assert(t[m + i + 2] == x[i + 2]); }
            assert(dotdot_at(t, m + i) == dotdot_at(x, i));
            if sep(x[i]) { lemma_loc_shift(a, x, i + 1, u, n); }
            else if x[i] == DOT && i + 1 >= x.len() { }
            else if x[i] == DOT && sep(x[i + 1]) { lemma_loc_shift(a, x, i + 2, u, n); }
            else if dotdot_at(x, i) { if n.len() > 0 { lemma_loc_shift(a, x, i + 3, u, n.drop_last()); } else { lemma_loc_shift(a, x, i + 3, u + 1, n); } }
            else {
                lemma_comp_end(x, i);
                lemma_comp_end_shift(a, x, i);
                let e = comp_end(x, i);
                assert(t.subrange(m + i, m + e) =~= x.subrange(i, e));
                assert(t.subrange(m + i, m + e - 1) =~= x.subrange(i, e - 1));
                assert(t[m + e - 1] == x[e - 1]);
                assert(name_at(t, m + i) == name_at(x, i));
                lemma_loc_shift(a, x, e, u, n.push(name_at(x, i)));
            }
        }
    }
    pub open spec fn nil() -> Seq<Seq<u8>> { Seq::<Seq<u8>>::empty() }
    /// the output so far, and every prefix the stack can cut it back to, denote (ups, the first k names)
    pub open spec fn lfam(out: Seq<u8>, st: Seq<usize>, ups: int, names: Seq<Seq<u8>>) -> bool {
        &&& st.len() == names.len() && stack_ok(st, out.len() as int)
        &&& forall|k: int| 0 <= k <= st.len() ==> at_boundary(#[trigger] pref(out, st, k)) && loc(pref(out, st, k), 0, 0, nil()) == (ups, names.take(k))
    }
    pub proof fn lemma_run_loc(s: Seq<u8>, src: int, out: Seq<u8>, st: Seq<usize>, ups: int, names: Seq<Seq<u8>>)
        requires 0 <= src, lfam(out, st, ups, names), out.len() <= src, s.len() <= usize::MAX
        ensures loc(run(s, src, out, st), 0, 0, nil()) == loc(s, src, ups, names)
        decreases s.len() + 3 - src
    {
        assert(pref(out, st, st.len() as int) == out);
        assert(names.take(names.len() as int) =~= names);
        if src >= s.len() || (s[src] == DOT && src + 1 >= s.len()) {
            if src < s.len() && sep(s[src]) { lemma_run_loc(s, src + 1, out, st, ups, names); }
        } else if sep(s[src]) {
            lemma_run_loc(s, src + 1, out, st, ups, names);
        } else if s[src] == DOT && sep(s[src + 1]) {
            lemma_run_loc(s, src + 2, out, st, ups, names);
        } else if dotdot_at(s, src) {
            if st.len() > 0 {
                let out2 = out.take(st.last() as int);
                let st2 = st.drop_last();
                let names2 = names.drop_last();
                assert(lfam(out2, st2, ups, names2)) by {
                    assert forall|k: int| 0 <= k <= st2.len() implies at_boundary(#[trigger] pref(out2, st2, k)) && loc(pref(out2, st2, k), 0, 0, nil()) == (ups, names2.take(k)) by {
                        assert(names2.take(k) =~= names.take(k));
                        if k < st2.len() { assert(st[k] <= st[st.len() - 1]); assert(pref(out2, st2, k) =~= pref(out, st, k)); }
                        else { assert(pref(out2, st2, k) =~= pref(out, st, st.len() - 1)); }
                    }
                    assert(stack_ok(st2, out2.len() as int)) by {
                        assert forall|k: int| 0 <= k < st2.len() implies #[trigger] st2[k] <= out2.len() by { assert(st[k] <= st[st.len() - 1]); }
                    }
                }
                lemma_run_loc(s, src + 3, out2, st2, ups, names2);
            } else {
                let dd = seq![DOT, DOT] + (if src + 2 < s.len() { seq![s[src + 2]] } else { Seq::<u8>::empty() });
                let out2 = out + seq![DOT, DOT] + (if src + 2 < s.len() { seq![s[src + 2]] } else { Seq::<u8>::empty() });
                assert(out2 =~= out + dd);
                assert(names =~= nil());
                lemma_loc_concat(out, dd, 0, 0, nil());
                assert(dd[0] == DOT && dd[1] == DOT);
                assert(dotdot_at(dd, 0));
                assert(loc(dd, 3, ups + 1, nil()) == (ups + 1, nil()));
                assert(loc(dd, 0, ups, nil()) == (ups + 1, nil()));
                if src + 2 < s.len() {
                    assert(lfam(out2, st, ups + 1, names)) by {
                        assert(pref(out2, st, 0) == out2);
                        assert(names.take(0) =~= nil());
                        assert(out2[out2.len() - 1] == s[src + 2]);
                    }
                    lemma_run_loc(s, src + 3, out2, st, ups + 1, names);
                } else {
                    assert(run(s, src + 3, out2, st) == out2);
                    assert(loc(s, src + 3, ups + 1, names) == (ups + 1, names));
                    assert(loc(s, src, ups, names) == loc(s, src + 3, ups + 1, names));
                }
            }
        } else {
            lemma_comp_end(s, src);
            let e = comp_end(s, src);
            let c = s.subrange(src, e);
            let out2 = out + c;
            let st2 = st.push(out.len() as usize);
            let nm = name_at(s, src);
            let names2 = names.push(nm);
            assert(out.len() as usize == out.len());
            // scanning c from 0 with (ups, names): one ordinary component
            lemma_loc_concat(out, c, 0, 0, nil());
            assert(c[0] == s[src]);
            if c.len() >= 2 { assert(c[1] == s[src + 1]); }
            if c.len() >= 3 { assert(c[2] == s[src + 2]); }
            if s[src] == DOT { assert(e >= src + 2) by { if e < src + 2 { assert(e == src + 1); } } }
            if s[src] == DOT && s[src + 1] == DOT { assert(e >= src + 3) by { if e < src + 3 { assert(e == src + 2); } } }
            assert(!dotdot_at(c, 0));
            assert forall|j: int| 0 <= j < c.len() - 1 implies !sep(#[trigger] c[j]) by { assert(c[j] == s[src + j]); }
            assert(c[c.len() - 1] == s[e - 1]);
            lemma_comp_end_is(c, 0, c.len() as int);
            assert(c.subrange(0, c.len() as int) =~= s.subrange(src, e));
            assert(c.subrange(0, c.len() - 1) =~= s.subrange(src, e - 1));
            assert(name_at(c, 0) == nm);
            assert(loc(c, c.len() as int, ups, names2) == (ups, names2));
            assert(loc(c, 0, ups, names) == (ups, names2));
            assert(loc(out2, 0, 0, nil()) == (ups, names2));
            if e < s.len() || sep(s[e - 1]) {
                assert(lfam(out2, st2, ups, names2)) by {
                    assert forall|k: int| 0 <= k <= st2.len() implies at_boundary(#[trigger] pref(out2, st2, k)) && loc(pref(out2, st2, k), 0, 0, nil()) == (ups, names2.take(k)) by {
                        if k < st.len() { assert(pref(out2, st2, k) =~= pref(out, st, k)); assert(names2.take(k) =~= names.take(k)); }
                        else if k == st.len() { assert(st2[k] == out.len()); assert(pref(out2, st2, k) =~= out); assert(names2.take(k) =~= names); }
                        else { assert(pref(out2, st2, k) == out2); assert(names2.take(k) =~= names2); assert(out2[out2.len() - 1] == s[e - 1]); }
                    }
                    assert(stack_ok(st2, out2.len() as int)) by {
                        assert forall|k: int| 0 <= k < st2.len() implies #[trigger] st2[k] <= out2.len() by { if k < st.len() { assert(st2[k] == st[k]); } }
                        assert forall|a: int, b: int| 0 <= a < b < st2.len() implies st2[a] <= st2[b] by { if b < st.len() { assert(st2[a] == st[a] && st2[b] == st[b]); } else { assert(st2[a] == st[a]); } }
                    }
                }
                lemma_run_loc(s, e, out2, st2, ups, names2);
            } else {
                assert(run(s, e, out2, st2) == out2);
                assert(loc(s, e, ups, names2) == (ups, names2));
                assert(loc(s, src, ups, names) == loc(s, e, ups, names2));
            }
        }
    }
    /// C13: the canonical spelling denotes the same location
    pub proof fn lemma_canon_location(s: Seq<u8>)
        requires 0 < s.len() <= usize::MAX
        ensures location(canon(s)).0 == location(s).0, location(canon(s)).1 == location(s).1
    {
        let st = Seq::<usize>::empty();
        lemma_canon_canonical(s);
        if sep(s[0]) {
            let out = seq![s[0]];
            assert(lfam(out, st, 0, nil())) by {
                assert(pref(out, st, 0) == out);
                assert(nil().take(0) =~= nil());
                assert(loc(out, 1, 0, nil()) == (0int, nil()));
            }
            lemma_run_loc(s, 1, out, st, 0, nil());
            // the root is kept
            assert(fam(out, st, 1)) by {
                assert forall|x: Seq<u8>| #[trigger] cont_ok(x, false) implies canonical_from(out + x, 1, false) by { lemma_cf_shift(out, x, 0, false); }
                assert(pref(out, st, 0) == out);
            }
            lemma_run_canon(s, 1, out, st, 1);
            let r = run(s, 1, out, st);
            assert(r.take(1) =~= out); assert(r.take(1)[0] == r[0]);
        } else {
            let out = Seq::<u8>::empty();
            assert(lfam(out, st, 0, nil())) by {
                assert(pref(out, st, 0) == out);
                assert(nil().take(0) =~= nil());
            }
            lemma_run_loc(s, 0, out, st, 0, nil());
            let r = run(s, 0, out, st);
            assert(fam(out, st, 0)) by {
                assert forall|x: Seq<u8>| #[trigger] cont_ok(x, false) implies canonical_from(out + x, 0, false) by { assert(out + x =~= x); }
                assert(pref(out, st, 0) == out);
            }
            lemma_run_canon(s, 0, out, st, 0);
            if r.len() == 0 {
                let d = seq![DOT];
                assert(loc(d, 0, 0, nil()) == (0int, nil()));
            } else {
                assert(!sep(r[0]));
            }
        }
    }
    /// C13, for one input: idempotent, never longer, canonical form, same location
    pub open spec fn adequate(s: Seq<u8>) -> bool {
        let c = canon(s);
        canon(c) =~= c && 1 <= c.len() <= s.len() && is_canonical(c) && location(c).0 == location(s).0
            && location(c).1.0 == location(s).1.0 && location(c).1.1 =~~= location(s).1.1
    }
    /// number of component starts (an upper bound for the depth of the component stack)
    pub open spec fn ncomp(s: Seq<u8>, n: int) -> int
        decreases n
    {
        if n <= 0 { 0 } else { ncomp(s, n - 1) + (if n - 1 < s.len() && !sep(s[n - 1]) && (n - 1 == 0 || sep(s[n - 2])) { 1int } else { 0int }) }
    }
    }
}
verus! {
// The on-stack stack of component offsets: the first n slots of a MaybeUninit array, then the heap spill.
// TRUSTED (unsafe code): a MaybeUninit slot holds the value last written to it (mu_val); reading it back is assume_init.
pub uninterp spec fn mu_val<T>(m: std::mem::MaybeUninit<T>) -> T;
pub open spec fn stk_view<T, const C: usize>(s: crate::canon::StackStack<T, C>) -> Seq<T> {
    Seq::new(s.n as nat, |i: int| mu_val(s.vals@[i])) + s.spill@
}
/// the spill is only in use when the array is full
pub open spec fn stk_wf<T, const C: usize>(s: crate::canon::StackStack<T, C>) -> bool {
    s.n <= C && (s.spill@.len() > 0 ==> s.n == C)
}
/// R9 wrappers for MaybeUninit::write / assume_init
#[verifier::external_body]
pub fn vx_mu_write<T>(slot: &mut std::mem::MaybeUninit<T>, val: T) ensures mu_val(*final(slot)) == val { slot.write(val); }
#[verifier::external_body]
pub fn vx_mu_read<T: Copy>(slot: &std::mem::MaybeUninit<T>) -> (r: T) ensures r == mu_val(*slot) { unsafe { slot.assume_init() } }
// TRUSTED (unsafe code): String::as_mut_vec exposes the utf-8 bytes; what is left in the vector is the string afterwards
pub trait VxAsMutVec { fn vx_as_mut_vec(&mut self) -> (r: &mut Vec<u8>); }
impl VxAsMutVec for String {
    #[verifier::external_body] fn vx_as_mut_vec(&mut self) -> (r: &mut Vec<u8>)
        ensures r@ == vx_utf8(old(self)@), vx_utf8(final(self)@) == final(r)@
    { unsafe { self.as_mut_vec() } }
}
pub assume_specification<T, A: std::alloc::Allocator> [std::vec::Vec::<T, A>::set_len] (v: &mut Vec<T, A>, n: usize)
    requires n <= old(v)@.len()
    ensures final(v)@ == old(v)@.take(n as int);
}
