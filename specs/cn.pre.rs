// ---- canon unit (C13): byte-level spec of lexical canonicalisation -------------------------------------------
pub mod cn {
    use vstd::prelude::*;
    verus! {
    pub open spec fn sep(b: u8) -> bool { b == 47u8 || b == 92u8 }   // '/' or '\\'
    pub open spec const DOT: u8 = 46u8;
    /// end (exclusive) of the component starting at i, including its trailing separator if any
    pub open spec fn comp_end(s: Seq<u8>, i: int) -> int
        decreases s.len() - i
    {
        if i >= s.len() { s.len() as int } else if sep(s[i]) { i + 1 } else { comp_end(s, i + 1) }
    }
    /// is there a `..` component at i (followed by a separator or the end)?
    pub open spec fn dotdot_at(s: Seq<u8>, i: int) -> bool {
        i + 1 < s.len() && s[i] == DOT && s[i + 1] == DOT && (i + 2 >= s.len() || sep(s[i + 2]))
    }
    /// The canonicaliser as a function of (input, read position, output so far, stack of component starts in the output).
    /// One case per kind of component, in the words of the property: empty and `.` components are removed, `..` removes the
    /// preceding kept component or, if there is none, is kept (leading `..`), everything else is copied.
    pub proof fn lemma_comp_end(s: Seq<u8>, i: int)
        requires 0 <= i < s.len()
        ensures i < comp_end(s, i) <= s.len(),
            forall|j: int| i <= j < comp_end(s, i) - 1 ==> !sep(#[trigger] s[j]),
            comp_end(s, i) < s.len() ==> sep(s[comp_end(s, i) - 1]),
            !sep(s[comp_end(s, i) - 1]) ==> comp_end(s, i) == s.len(),
        decreases s.len() - i
    {
        if !sep(s[i]) { if i + 1 < s.len() { lemma_comp_end(s, i + 1); } else { assert(comp_end(s, i + 1) == s.len()); } }
    }
    #[via_fn]
    proof fn run_dec(s: Seq<u8>, src: int, out: Seq<u8>, st: Seq<usize>) {
        if 0 <= src < s.len() { lemma_comp_end(s, src); }
    }
    pub open spec fn run(s: Seq<u8>, src: int, out: Seq<u8>, st: Seq<usize>) -> Seq<u8>
        decreases s.len() + 3 - src via run_dec
    {
        if src < 0 || src >= s.len() { out }
        else if sep(s[src]) { run(s, src + 1, out, st) }                                           // empty component
        else if s[src] == DOT && src + 1 >= s.len() { out }                                         // trailing `.`
        else if s[src] == DOT && sep(s[src + 1]) { run(s, src + 2, out, st) }                       // `./`
        else if dotdot_at(s, src) {
            if st.len() > 0 { run(s, src + 3, out.take(st.last() as int), st.drop_last()) }               // `name/..`
            else { run(s, src + 3, out + seq![DOT, DOT] + (if src + 2 < s.len() { seq![s[src + 2]] } else { Seq::<u8>::empty() }), st) }   // leading `..`
        } else {
            let e = comp_end(s, src);
            run(s, e, out + s.subrange(src, e), st.push(out.len() as usize))                           // ordinary component
        }
    }
    pub open spec fn canon(s: Seq<u8>) -> Seq<u8> {
        let r = if s.len() > 0 && sep(s[0]) { run(s, 1, seq![s[0]], Seq::<usize>::empty()) } else { run(s, 0, Seq::<u8>::empty(), Seq::<usize>::empty()) };
        if r.len() == 0 { seq![DOT] } else { r }
    }
    pub open spec fn start(s: Seq<u8>) -> Seq<u8> {
        if s.len() > 0 && sep(s[0]) { run(s, 1, seq![s[0]], Seq::<usize>::empty()) } else { run(s, 0, Seq::<u8>::empty(), Seq::<usize>::empty()) }
    }
    /// e is the end of the component starting at i
    pub proof fn lemma_comp_end_is(s: Seq<u8>, i: int, e: int)
        requires 0 <= i < e <= s.len(), forall|j: int| i <= j < e - 1 ==> !sep(#[trigger] s[j]), sep(s[e - 1]) || e == s.len()
        ensures comp_end(s, i) == e
        decreases e - i
    {
        if i == e - 1 { if !sep(s[i]) { assert(comp_end(s, i + 1) == s.len()); } } else { lemma_comp_end_is(s, i + 1, e); }
    }
    pub proof fn lemma_ncomp_mono(s: Seq<u8>, a: int, b: int)
        requires a <= b
        ensures ncomp(s, a) <= ncomp(s, b)
        decreases b - a
    {
        if a < b { lemma_ncomp_mono(s, a, b - 1); }
    }
    /// sorted stack of output offsets
    pub open spec fn stack_ok(st: Seq<usize>, dst: int) -> bool {
        (forall|k: int| 0 <= k < st.len() ==> #[trigger] st[k] <= dst) && (forall|a: int, b: int| 0 <= a < b < st.len() ==> st[a] <= st[b])
    }
    // --- what the statement says about the result, as predicates on byte strings (used by the bounded adequacy check
    //     of the spec function `canon`, and available to lemmas)
    #[via_fn]
    proof fn canonical_from_dec(t: Seq<u8>, i: int, names_seen: bool) {
        if 0 <= i < t.len() { lemma_comp_end(t, i); }
    }
    /// from component start i on: no empty component, no `.` component, `..` only before the first name
    pub open spec fn canonical_from(t: Seq<u8>, i: int, names_seen: bool) -> bool
        decreases t.len() + 3 - i via canonical_from_dec
    {
        if i < 0 || i >= t.len() { true }
        else if sep(t[i]) { false }
        else if t[i] == DOT && (i + 1 >= t.len() || sep(t[i + 1])) { false }
        else if dotdot_at(t, i) { !names_seen && canonical_from(t, i + 3, false) }
        else { canonical_from(t, comp_end(t, i), true) }
    }
    pub open spec fn is_canonical(t: Seq<u8>) -> bool {
        t.len() > 0 && (t =~= seq![DOT] || canonical_from(t, if sep(t[0]) { 1 } else { 0 }, false))
    }
    // --- unbounded lemma: canonical strings are fixpoints of canon (half of idempotence; the other half, that every
    //     output is canonical, is only checked exhaustively up to a length bound)
    pub proof fn lemma_run_fix(t: Seq<u8>, i: int, ns: bool, st: Seq<usize>)
        requires 0 <= i, canonical_from(t, i, ns), ns || st.len() == 0
        ensures run(t, i, t.take(i), st) == t || i > t.len()
        decreases t.len() + 3 - i
    {
        if i >= t.len() {
            if i == t.len() { assert(t.take(i) =~= t); }
        } else {
            lemma_comp_end(t, i);
            if dotdot_at(t, i) {
                let out2 = t.take(i) + seq![DOT, DOT] + (if i + 2 < t.len() { seq![t[i + 2]] } else { Seq::<u8>::empty() });
                if i + 2 < t.len() {
                    assert(out2 =~= t.take(i + 3));
                    lemma_run_fix(t, i + 3, false, st);
                } else {
                    assert(out2 =~= t);
                    assert(run(t, i + 3, out2, st) == out2);
                }
            } else {
                let e = comp_end(t, i);
                assert(t.take(i) + t.subrange(i, e) =~= t.take(e));
                assert(!(t[i] == DOT && i + 1 >= t.len()) && !(t[i] == DOT && sep(t[i + 1])) && !sep(t[i]));
                lemma_run_fix(t, e, true, st.push(t.take(i).len() as usize));
                assert(run(t, i, t.take(i), st) == run(t, e, t.take(i) + t.subrange(i, e), st.push(t.take(i).len() as usize)));
            }
        }
    }
    pub proof fn lemma_canon_fix(t: Seq<u8>)
        requires is_canonical(t)
        ensures canon(t) == t
    {
        if t =~= seq![DOT] {
            assert(run(t, 0, Seq::<u8>::empty(), Seq::<usize>::empty()).len() == 0);
        } else if sep(t[0]) {
            assert(seq![t[0]] =~= t.take(1));
            lemma_run_fix(t, 1, false, Seq::<usize>::empty());
        } else {
            assert(Seq::<u8>::empty() =~= t.take(0));
            lemma_run_fix(t, 0, false, Seq::<usize>::empty());
        }
    }
    /// the location a path denotes, lexically: how many levels above the start (or root) it climbs, then which names it descends
    #[via_fn]
    proof fn loc_dec(t: Seq<u8>, i: int, ups: int, names: Seq<Seq<u8>>) {
        if 0 <= i < t.len() { lemma_comp_end(t, i); }
    }
    pub open spec fn name_at(t: Seq<u8>, i: int) -> Seq<u8> {
        let e = comp_end(t, i);
        if e > i && sep(t[e - 1]) { t.subrange(i, e - 1) } else { t.subrange(i, e) }
    }
    pub open spec fn loc(t: Seq<u8>, i: int, ups: int, names: Seq<Seq<u8>>) -> (int, Seq<Seq<u8>>)
        decreases t.len() + 3 - i via loc_dec
    {
        if i < 0 || i >= t.len() { (ups, names) }
        else if sep(t[i]) { loc(t, i + 1, ups, names) }
        else if t[i] == DOT && i + 1 >= t.len() { (ups, names) }
        else if t[i] == DOT && sep(t[i + 1]) { loc(t, i + 2, ups, names) }
        else if dotdot_at(t, i) { if names.len() > 0 { loc(t, i + 3, ups, names.drop_last()) } else { loc(t, i + 3, ups + 1, names) } }
        else { loc(t, comp_end(t, i), ups, names.push(name_at(t, i))) }
    }
    pub open spec fn rooted(t: Seq<u8>) -> bool { t.len() > 0 && sep(t[0]) }
    pub open spec fn location(t: Seq<u8>) -> (bool, (int, Seq<Seq<u8>>)) { (rooted(t), loc(t, 0, 0, Seq::<Seq<u8>>::empty())) }
    /// C13, for one input: idempotent, never longer, canonical form, same location
    pub open spec fn adequate(s: Seq<u8>) -> bool {
        let c = canon(s);
        canon(c) =~= c && 1 <= c.len() <= s.len() && is_canonical(c) && location(c).0 == location(s).0
            && location(c).1.0 == location(s).1.0 && location(c).1.1 =~~= location(s).1.1
    }
    /// number of component starts (an upper bound for the depth of the component stack)
    pub open spec fn ncomp(s: Seq<u8>, n: int) -> int
        decreases n
    {
        if n <= 0 { 0 } else { ncomp(s, n - 1) + (if n - 1 < s.len() && !sep(s[n - 1]) && (n - 1 == 0 || sep(s[n - 2])) { 1int } else { 0int }) }
    }
    }
}
verus! {
// TRUSTED: the on-stack stack of component offsets (MaybeUninit array, unsafe) is modelled as a sequence (R8)
pub uninterp spec fn stk_view<T, const C: usize>(s: crate::canon::StackStack<T, C>) -> Seq<T>;
// TRUSTED (unsafe code): String::as_mut_vec exposes the utf-8 bytes; what is left in the vector is the string afterwards
pub trait VxAsMutVec { fn vx_as_mut_vec(&mut self) -> (r: &mut Vec<u8>); }
impl VxAsMutVec for String {
    #[verifier::external_body] fn vx_as_mut_vec(&mut self) -> (r: &mut Vec<u8>)
        ensures r@ == vx_utf8(old(self)@), vx_utf8(final(self)@) == final(r)@
    { unsafe { self.as_mut_vec() } }
}
pub assume_specification<T, A: std::alloc::Allocator> [std::vec::Vec::<T, A>::set_len] (v: &mut Vec<T, A>, n: usize)
    requires n <= old(v)@.len()
    ensures final(v)@ == old(v)@.take(n as int);
}
