// ---- trusted string/byte model shared by db and scan units --------------------------------------
verus! {
/// utf-8 encoding of a string's characters (uninterpreted; str::as_bytes / from_utf8_unchecked are its two directions)
pub uninterp spec fn vx_utf8(s: Seq<char>) -> Seq<u8>;
/// "n2db" is four ASCII bytes
pub broadcast axiom fn ax_sig_len()
    ensures #[trigger] vx_utf8("n2db"@).len() == 4;
pub assume_specification [std::string::String::from_utf8_unchecked] (v: std::vec::Vec<u8>) -> (r: std::string::String)
    ensures vx_utf8(r@) == v@;
/// R9 wrappers for `str::len` / `str::as_bytes` (vstd's own str::len spec says nothing about the byte length)
pub trait VxStr {
    fn vx_len(&self) -> (r: usize);
    fn vx_as_bytes(&self) -> (r: &[u8]);
}
impl VxStr for str {
    #[verifier::external_body] fn vx_len(&self) -> (r: usize) ensures r == vx_utf8(self@).len() { self.len() }
    #[verifier::external_body] fn vx_as_bytes(&self) -> (r: &[u8]) ensures r@ == vx_utf8(self@) { self.as_bytes() }
}

pub assume_specification<'a> [std::str::from_utf8_unchecked] (v: &'a [u8]) -> (r: &'a str)
    ensures vx_utf8(r@) == v@;
}
