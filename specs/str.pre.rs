// ---- trusted string/byte model shared by db and scan units --------------------------------------
verus! {
/// utf-8 encoding of a string's characters (uninterpreted; str::as_bytes / from_utf8_unchecked are its two directions)
pub uninterp spec fn vx_utf8(s: Seq<char>) -> Seq<u8>;
/// "n2db" is four ASCII bytes
pub broadcast axiom fn ax_sig_len()
    ensures #[trigger] vx_utf8("n2db"@).len() == 4;
pub assume_specification [std::string::String::from_utf8_unchecked] (v: std::vec::Vec<u8>) -> (r: std::string::String)
    ensures vx_utf8(r@) == v@;
/// R9 wrappers for `str::len` / `str::as_bytes` (vstd's own str::len spec says nothing about the byte length)
pub trait VxStr {
    fn vx_len(&self) -> (r: usize);
    fn vx_as_bytes(&self) -> (r: &[u8]);
    fn vx_strip_suffix_char(&self, c: char) -> (r: Option<&str>);
    fn vx_split_once_char(&self, c: char) -> (r: Option<(&str, &str)>);
    fn vx_is_empty(&self) -> (r: bool);
}
impl VxStr for str {
    #[verifier::external_body] fn vx_len(&self) -> (r: usize) ensures r == vx_utf8(self@).len() { self.len() }
    #[verifier::external_body] fn vx_as_bytes(&self) -> (r: &[u8]) ensures r@ == vx_utf8(self@) { self.as_bytes() }
    /// for an ASCII char c: Some(t) iff the string's last byte is c, and then t is the string without it
    #[verifier::external_body] fn vx_strip_suffix_char(&self, c: char) -> (r: Option<&str>)
        ensures (c as u32) < 128 ==> (match r {
            Some(t) => vx_utf8(self@).len() > 0 && vx_utf8(self@).last() == c as u8 && vx_utf8(t@) == vx_utf8(self@).drop_last(),
            None => vx_utf8(self@).len() == 0 || vx_utf8(self@).last() != c as u8 })
    { self.strip_suffix(c) }
    /// for an ASCII char c: split at the FIRST byte equal to c (std documentation of str::split_once)
    #[verifier::external_body] fn vx_split_once_char(&self, c: char) -> (r: Option<(&str, &str)>)
        ensures (c as u32) < 128 ==> (match r {
            Some((a, b)) => vx_utf8(self@) == vx_utf8(a@) + seq![c as u8] + vx_utf8(b@) && !vx_utf8(a@).contains(c as u8),
            None => !vx_utf8(self@).contains(c as u8) })
    { self.split_once(c) }
    #[verifier::external_body] fn vx_is_empty(&self) -> (r: bool) ensures r == (vx_utf8(self@).len() == 0) { self.is_empty() }
}

/// R9 wrapper for `String::from_utf8_lossy(&v).into_owned()`: the decoded string when v is valid utf-8 (the encoding of
/// some string); otherwise invalid sequences are replaced by U+FFFD, i.e. nothing is known about the bytes of the result
#[verifier::external_body]
pub fn vx_from_utf8_lossy_owned(v: &Vec<u8>) -> (r: String)
    ensures (exists|s: Seq<char>| vx_utf8(s) == v@) ==> vx_utf8(r@) == v@
{ String::from_utf8_lossy(v).into_owned() }

pub assume_specification<'a> [std::str::from_utf8_unchecked] (v: &'a [u8]) -> (r: &'a str)
    ensures vx_utf8(r@) == v@;

#[verifier::external_type_specification]
#[verifier::external_body]
pub struct ExParseIntError(std::num::ParseIntError);
/// R9 wrapper for `str::parse::<usize>()` (decimal parsing itself is trusted, no contract needed by any property)
/// R9 wrappers for str predicates that have no Verus model; their results are unconstrained (no property needs them)
pub trait VxStrPred {
    fn vx_starts_with_char(&self, c: char) -> (r: bool);
    fn vx_contains_str(&self, p: &str) -> (r: bool);
    fn vx_ends_with_char(&self, c: char) -> (r: bool);
}
impl VxStrPred for str {
    #[verifier::external_body] fn vx_starts_with_char(&self, c: char) -> (r: bool) { self.starts_with(c) }
    #[verifier::external_body] fn vx_contains_str(&self, p: &str) -> (r: bool) { self.contains(p) }
    #[verifier::external_body] fn vx_ends_with_char(&self, c: char) -> (r: bool) { self.ends_with(c) }
}
pub trait VxParse { fn vx_parse_usize(&self) -> (r: Result<usize, std::num::ParseIntError>); }
impl VxParse for String {
    #[verifier::external_body] fn vx_parse_usize(&self) -> (r: Result<usize, std::num::ParseIntError>) { self.parse::<usize>() }
}
}
