// ---- db spec vocabulary: the on-disk record format (DESIGN §6 C07/C08) ---------------------
pub mod ds {
    use vstd::prelude::*;
    use crate::graph::*;
    use crate::db::*;
    use crate::vx_keys::{vx_ix, ix};
    verus! {
    broadcast use crate::vx_keys::group_keys;

    pub open spec fn enc_u16(n: u16) -> Seq<u8> { seq![(n & 0xff) as u8, (n >> 8) as u8] }
    pub open spec fn enc_u24(n: u32) -> Seq<u8> { seq![(n & 0xff) as u8, ((n >> 8) & 0xff) as u8, ((n >> 16) & 0xff) as u8] }
    pub open spec fn enc_u32(n: u32) -> Seq<u8> { seq![(n & 0xff) as u8, ((n >> 8) & 0xff) as u8, ((n >> 16) & 0xff) as u8, ((n >> 24) & 0xff) as u8] }
    pub open spec fn enc_u64(n: u64) -> Seq<u8> {
        seq![(n & 0xff) as u8, ((n >> 8) & 0xff) as u8, ((n >> 16) & 0xff) as u8, ((n >> 24) & 0xff) as u8,
             ((n >> 32) & 0xff) as u8, ((n >> 40) & 0xff) as u8, ((n >> 48) & 0xff) as u8, ((n >> 56) & 0xff) as u8]
    }
    pub open spec fn dec_u16(b: Seq<u8>) -> u16 { (b[0] as u16) | ((b[1] as u16) << 8) }
    pub open spec fn dec_u24(b: Seq<u8>) -> u32 { (b[0] as u32) | ((b[1] as u32) << 8) | ((b[2] as u32) << 16) }
    pub open spec fn dec_u32(b: Seq<u8>) -> u32 { (b[0] as u32) | ((b[1] as u32) << 8) | ((b[2] as u32) << 16) | ((b[3] as u32) << 24) }
    pub open spec fn dec_u64(b: Seq<u8>) -> u64 {
        (b[0] as u64) | ((b[1] as u64) << 8) | ((b[2] as u64) << 16) | ((b[3] as u64) << 24)
        | ((b[4] as u64) << 32) | ((b[5] as u64) << 40) | ((b[6] as u64) << 48) | ((b[7] as u64) << 56)
    }
    pub proof fn lemma_u16_roundtrip(n: u16)
        ensures dec_u16(enc_u16(n)) == n
    { assert(((n & 0xff) as u8 as u16) | (((n >> 8) as u8 as u16) << 8) == n) by (bit_vector); }
    pub proof fn lemma_u24_roundtrip(n: u32)
        requires n < 0x100_0000
        ensures dec_u24(enc_u24(n)) == n
    {
        assert(n < 0x100_0000 ==> (((n & 0xff) as u8 as u32) | ((((n >> 8) & 0xff) as u8 as u32) << 8) | ((((n >> 16) & 0xff) as u8 as u32) << 16)) == n) by (bit_vector);
    }
    pub proof fn lemma_u64_roundtrip(n: u64)
        ensures dec_u64(enc_u64(n)) == n
    {
        assert((((n & 0xff) as u8 as u64) | ((((n >> 8) & 0xff) as u8 as u64) << 8) | ((((n >> 16) & 0xff) as u8 as u64) << 16) | ((((n >> 24) & 0xff) as u8 as u64) << 24)
            | ((((n >> 32) & 0xff) as u8 as u64) << 32) | ((((n >> 40) & 0xff) as u8 as u64) << 40) | ((((n >> 48) & 0xff) as u8 as u64) << 48) | ((((n >> 56) & 0xff) as u8 as u64) << 56)) == n) by (bit_vector);
    }
    /// concatenated 3-byte encodings of a list of db ids
    pub open spec fn enc_ids(ids: Seq<Id>) -> Seq<u8>
        decreases ids.len()
    { if ids.len() == 0 { Seq::empty() } else { enc_ids(ids.drop_last()) + enc_u24(ids.last().0) } }
    pub proof fn lemma_enc_ids_len(ids: Seq<Id>)
        ensures enc_ids(ids).len() == 3 * ids.len()
        decreases ids.len()
    { if ids.len() > 0 { lemma_enc_ids_len(ids.drop_last()); } }

    /// a path record: u16 length (high bit clear) + the name's bytes
    pub open spec fn enc_path(name: Seq<u8>) -> Seq<u8> { enc_u16(name.len() as u16) + name }
    /// a build record: u16 (#outs | 0x8000), out ids, u16 #deps, dep ids, u64 hash
    pub open spec fn enc_build(outs: Seq<Id>, deps: Seq<Id>, hash: u64) -> Seq<u8> {
        enc_u16((outs.len() as u16) | 0x8000) + enc_ids(outs) + enc_u16(deps.len() as u16) + enc_ids(deps) + enc_u64(hash)
    }
    pub open spec fn signature() -> Seq<u8> { seq![0x6eu8, 0x32u8, 0x64u8, 0x62u8] + enc_u32(1) }

    // --- IdMap
    pub open spec fn fileids(m: IdMap) -> Seq<FileId> { m.fileids.vec@ }
    /// every FileId the writer knows maps to a db id that maps back to it
    pub open spec fn idmap_inv(m: IdMap) -> bool {
        &&& fileids(m).len() <= 0x100_0000
        &&& forall|f: FileId| #[trigger] m.db_ids@.contains_key(f) ==> (m.db_ids@[f].0 as int) < fileids(m).len() && fileids(m)[m.db_ids@[f].0 as int] == f
    }
    }
}
