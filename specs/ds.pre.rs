// ---- db spec vocabulary: the on-disk record format (DESIGN §6 C07/C08) ---------------------
pub mod ds {
    use vstd::prelude::*;
    use crate::graph::*;
    use crate::db::*;
    use crate::gs;
    use crate::vx_keys::{vx_ix, ix};
    verus! {
    broadcast use crate::vx_keys::group_keys;

    pub open spec fn enc_u16(n: u16) -> Seq<u8> { seq![(n & 0xff) as u8, (n >> 8) as u8] }
    pub open spec fn enc_u24(n: u32) -> Seq<u8> { seq![(n & 0xff) as u8, ((n >> 8) & 0xff) as u8, ((n >> 16) & 0xff) as u8] }
    pub open spec fn enc_u32(n: u32) -> Seq<u8> { seq![(n & 0xff) as u8, ((n >> 8) & 0xff) as u8, ((n >> 16) & 0xff) as u8, ((n >> 24) & 0xff) as u8] }
    pub open spec fn enc_u64(n: u64) -> Seq<u8> {
        seq![(n & 0xff) as u8, ((n >> 8) & 0xff) as u8, ((n >> 16) & 0xff) as u8, ((n >> 24) & 0xff) as u8,
             ((n >> 32) & 0xff) as u8, ((n >> 40) & 0xff) as u8, ((n >> 48) & 0xff) as u8, ((n >> 56) & 0xff) as u8]
    }
    pub open spec fn dec_u16(b: Seq<u8>) -> u16 { (b[0] as u16) | ((b[1] as u16) << 8) }
    pub open spec fn dec_u24(b: Seq<u8>) -> u32 { (b[0] as u32) | ((b[1] as u32) << 8) | ((b[2] as u32) << 16) }
    pub open spec fn dec_u32(b: Seq<u8>) -> u32 { (b[0] as u32) | ((b[1] as u32) << 8) | ((b[2] as u32) << 16) | ((b[3] as u32) << 24) }
    pub open spec fn dec_u64(b: Seq<u8>) -> u64 {
        (b[0] as u64) | ((b[1] as u64) << 8) | ((b[2] as u64) << 16) | ((b[3] as u64) << 24)
        | ((b[4] as u64) << 32) | ((b[5] as u64) << 40) | ((b[6] as u64) << 48) | ((b[7] as u64) << 56)
    }
    pub proof fn lemma_u16_roundtrip(n: u16)
        ensures dec_u16(enc_u16(n)) == n
    { assert(((n & 0xff) as u8 as u16) | (((n >> 8) as u8 as u16) << 8) == n) by (bit_vector); }
    pub proof fn lemma_u24_roundtrip(n: u32)
        requires n < 0x100_0000
        ensures dec_u24(enc_u24(n)) == n
    {
        assert(n < 0x100_0000 ==> (((n & 0xff) as u8 as u32) | ((((n >> 8) & 0xff) as u8 as u32) << 8) | ((((n >> 16) & 0xff) as u8 as u32) << 16)) == n) by (bit_vector);
    }
    pub proof fn lemma_u32_one()
        ensures dec_u32(enc_u32(1)) == 1
    { assert((((1u32 & 0xff) as u8 as u32) | ((((1u32 >> 8) & 0xff) as u8 as u32) << 8) | ((((1u32 >> 16) & 0xff) as u8 as u32) << 16) | ((((1u32 >> 24) & 0xff) as u8 as u32) << 24)) == 1u32) by (bit_vector); }
    pub proof fn lemma_u64_roundtrip(n: u64)
        ensures dec_u64(enc_u64(n)) == n
    {
        assert((((n & 0xff) as u8 as u64) | ((((n >> 8) & 0xff) as u8 as u64) << 8) | ((((n >> 16) & 0xff) as u8 as u64) << 16) | ((((n >> 24) & 0xff) as u8 as u64) << 24)
            | ((((n >> 32) & 0xff) as u8 as u64) << 32) | ((((n >> 40) & 0xff) as u8 as u64) << 40) | ((((n >> 48) & 0xff) as u8 as u64) << 48) | ((((n >> 56) & 0xff) as u8 as u64) << 56)) == n) by (bit_vector);
    }
    /// concatenated 3-byte encodings of a list of db ids
    pub open spec fn enc_ids(ids: Seq<Id>) -> Seq<u8>
        decreases ids.len()
    { if ids.len() == 0 { Seq::empty() } else { enc_ids(ids.drop_last()) + enc_u24(ids.last().0) } }
    pub proof fn lemma_enc_ids_len(ids: Seq<Id>)
        ensures enc_ids(ids).len() == 3 * ids.len()
        decreases ids.len()
    { if ids.len() > 0 { lemma_enc_ids_len(ids.drop_last()); } }

    /// a path record: u16 length (high bit clear) + the name's bytes
    pub open spec fn enc_path(name: Seq<u8>) -> Seq<u8> { enc_u16(name.len() as u16) + name }
    /// a build record: u16 (#outs | 0x8000), out ids, u16 #deps, dep ids, u64 hash
    pub open spec fn enc_build(outs: Seq<Id>, deps: Seq<Id>, hash: u64) -> Seq<u8> {
        enc_u16((outs.len() as u16) | 0x8000) + enc_ids(outs) + enc_u16(deps.len() as u16) + enc_ids(deps) + enc_u64(hash)
    }
    pub open spec fn signature() -> Seq<u8> { crate::vx_utf8("n2db"@) + enc_u32(1) }

    // --- IdMap
    pub open spec fn fileids(m: IdMap) -> Seq<FileId> { m.fileids.vec@ }
    /// every FileId the writer knows maps to a db id that maps back to it
    pub open spec fn idmap_inv(m: IdMap) -> bool {
        &&& fileids(m).len() <= 0x100_0000
        &&& forall|f: FileId| #[trigger] m.db_ids@.contains_key(f) ==> (m.db_ids@[f].0 as int) < fileids(m).len() && fileids(m)[m.db_ids@[f].0 as int] == f
    }

    pub open spec fn name_bytes(g: Graph, f: FileId) -> Seq<u8> { crate::vx_utf8(gs::files(g)[ix(f)].name@) }
    /// the path records for db ids from..to, in id order
    pub open spec fn paths_enc(g: Graph, fids: Seq<FileId>, from: int, to: int) -> Seq<u8>
        decreases to - from
    {
        if to <= from { Seq::empty() } else { paths_enc(g, fids, from, to - 1) + enc_path(name_bytes(g, fids[to - 1])) }
    }
    pub open spec fn names_short(g: Graph) -> bool {
        forall|f: int| 0 <= f < gs::files(g).len() ==> crate::vx_utf8((#[trigger] gs::files(g)[f]).name@).len() < 0x8000
    }
    pub open spec fn ids_map(m: IdMap, ids: Seq<Id>, fs: Seq<FileId>) -> bool {
        ids.len() == fs.len() && forall|j: int| 0 <= j < ids.len() ==> (#[trigger] ids[j]).0 < fileids(m).len() && fileids(m)[ids[j].0 as int] == fs[j]
            && m.db_ids@.contains_key(fs[j]) && m.db_ids@[fs[j]] == ids[j]
    }
    /// the db ids the writer assigns to a list of files
    pub open spec fn ids_of(m: IdMap, fs: Seq<FileId>) -> Seq<Id> { Seq::new(fs.len(), |j: int| m.db_ids@[fs[j]]) }
    pub open spec fn map_ext(a: IdMap, b: IdMap) -> bool {
        forall|f: FileId| #[trigger] a.db_ids@.contains_key(f) ==> b.db_ids@.contains_key(f) && b.db_ids@[f] == a.db_ids@[f]
    }
    pub open spec fn extends(a: Seq<FileId>, b: Seq<FileId>) -> bool { a.len() <= b.len() && b.subrange(0, a.len() as int) =~= a }
    pub proof fn lemma_paths_ext(g: Graph, a: Seq<FileId>, b: Seq<FileId>, from: int, to: int)
        requires extends(a, b), 0 <= from, to <= a.len()
        ensures paths_enc(g, a, from, to) == paths_enc(g, b, from, to)
        decreases to - from
    {
        if to > from {
            lemma_paths_ext(g, a, b, from, to - 1);
            assert(b.subrange(0, a.len() as int)[to - 1] == a[to - 1]);
        }
    }
    pub proof fn lemma_ids_map_ext(m0: IdMap, m1: IdMap, ids: Seq<Id>, fs: Seq<FileId>)
        requires ids_map(m0, ids, fs), extends(fileids(m0), fileids(m1)), map_ext(m0, m1)
        ensures ids_map(m1, ids, fs)
    {
        assert forall|j: int| 0 <= j < ids.len() implies (#[trigger] ids[j]).0 < fileids(m1).len() && fileids(m1)[ids[j].0 as int] == fs[j]
            && m1.db_ids@.contains_key(fs[j]) && m1.db_ids@[fs[j]] == ids[j] by {
            assert(fileids(m1).subrange(0, fileids(m0).len() as int)[ids[j].0 as int] == fileids(m0)[ids[j].0 as int]);
        }
    }

    pub proof fn lemma_paths_split(g: Graph, fids: Seq<FileId>, a: int, b: int, c: int)
        requires a <= b <= c
        ensures paths_enc(g, fids, a, c) == paths_enc(g, fids, a, b) + paths_enc(g, fids, b, c)
        decreases c - b
    {
        if c > b {
            lemma_paths_split(g, fids, a, b, c - 1);
            assert(paths_enc(g, fids, a, c) == paths_enc(g, fids, a, c - 1) + enc_path(name_bytes(g, fids[c - 1])));
            assert(paths_enc(g, fids, b, c) == paths_enc(g, fids, b, c - 1) + enc_path(name_bytes(g, fids[c - 1])));
            assert(paths_enc(g, fids, a, b) + (paths_enc(g, fids, b, c - 1) + enc_path(name_bytes(g, fids[c - 1])))
                =~= (paths_enc(g, fids, a, b) + paths_enc(g, fids, b, c - 1)) + enc_path(name_bytes(g, fids[c - 1])));
        } else {
            assert(paths_enc(g, fids, b, c) =~= Seq::<u8>::empty());
            assert(paths_enc(g, fids, a, b) + Seq::<u8>::empty() =~= paths_enc(g, fids, a, b));
        }
    }

    // --- reading: the record grammar as a spec-level parser (C07)
    /// total byte length of the first record of s, or -1 if s ends before the record is complete
    pub open spec fn rec_len(s: Seq<u8>) -> int {
        if s.len() < 2 { -1 } else {
            let l = dec_u16(s.subrange(0, 2));
            if l & 0x8000 == 0 {
                if s.len() >= 2 + l { 2 + l as int } else { -1 }
            } else {
                let no = (l & 0x7fff) as int;
                if s.len() < 2 + 3 * no + 2 { -1 } else {
                    let nd = dec_u16(s.subrange(2 + 3 * no, 2 + 3 * no + 2)) as int;
                    let t = 2 + 3 * no + 2 + 3 * nd + 8;
                    if s.len() >= t { t } else { -1 }
                }
            }
        }
    }
    pub open spec fn is_path_rec(s: Seq<u8>) -> bool { dec_u16(s.subrange(0, 2)) & 0x8000 == 0 }
    /// the j-th 3-byte id of an id list starting at s
    pub open spec fn id_at(s: Seq<u8>, j: int) -> u32 { dec_u24(s.subrange(3 * j, 3 * j + 3)) }
    /// every id a (possibly torn) build record refers to is below n  (n = number of path records before it)
    pub open spec fn rec_ids_ok(s: Seq<u8>, n: int) -> bool {
        s.len() >= 2 && !is_path_rec(s) ==> ({
            let no = (dec_u16(s.subrange(0, 2)) & 0x7fff) as int;
            let body = s.subrange(2, s.len() as int);
            &&& forall|j: int| 0 <= j < no && 3 * j + 3 <= body.len() ==> (#[trigger] id_at(body, j)) < n
            &&& (s.len() >= 2 + 3 * no + 2 ==> ({
                    let nd = dec_u16(s.subrange(2 + 3 * no, 2 + 3 * no + 2)) as int;
                    let dbody = s.subrange(2 + 3 * no + 2, s.len() as int);
                    forall|j: int| 0 <= j < nd && 3 * j + 3 <= dbody.len() ==> (#[trigger] id_at(dbody, j)) < n }))
        })
    }
    /// a byte stream made of complete well-formed records, possibly followed by a torn one
    pub open spec fn wf_stream(s: Seq<u8>, n: int) -> bool
        decreases s.len()
    {
        rec_ids_ok(s, n) && (rec_len(s) > 0 ==> n + 1 <= 0x100_0000 && wf_stream(s.subrange(rec_len(s), s.len() as int), if is_path_rec(s) { n + 1 } else { n }))
    }
    /// length of the longest prefix of s made of complete records
    pub open spec fn valid_len(s: Seq<u8>) -> int
        decreases s.len()
    {
        if rec_len(s) > 0 { rec_len(s) + valid_len(s.subrange(rec_len(s), s.len() as int)) } else { 0 }
    }
    pub open spec fn took<R: ?Sized>(r0: &R, r1: &R, n: int) -> bool {
        0 <= n <= crate::vx_unread(r0).len() && crate::vx_unread(r1) =~= crate::vx_unread(r0).subrange(n, crate::vx_unread(r0).len() as int)
        && crate::vx_consumed(r1) == crate::vx_consumed(r0) + n
    }

    // --- C08: which step a record is applied to
    pub open spec fn same_producer(g: Graph, fs: Seq<FileId>, k: int, b: BuildId) -> bool {
        forall|j: int| 0 <= j < k ==> gs::fid_ok(g, #[trigger] fs[j]) && gs::files(g)[ix(fs[j])].input == Some(b)
    }
    pub open spec fn no_producer(g: Graph, fs: Seq<FileId>, k: int) -> bool { forall|b: BuildId| !#[trigger] same_producer(g, fs, k, b) }
    pub proof fn lemma_no_producer_step(g: Graph, fs: Seq<FileId>, k: int)
        requires no_producer(g, fs, k)
        ensures no_producer(g, fs, k + 1)
    {
        assert forall|b: BuildId| !#[trigger] same_producer(g, fs, k + 1, b) by { assert(!same_producer(g, fs, k, b)); }
    }
    pub proof fn lemma_no_producer_none(g: Graph, fs: Seq<FileId>, k: int)
        requires 0 <= k < fs.len(), gs::fid_ok(g, fs[k]), gs::files(g)[ix(fs[k])].input is None
        ensures no_producer(g, fs, k + 1)
    {
        assert forall|b: BuildId| !#[trigger] same_producer(g, fs, k + 1, b) by { assert(gs::files(g)[ix(fs[k])].input is None); }
    }
    pub proof fn lemma_no_producer_mismatch(g: Graph, fs: Seq<FileId>, k: int, u: BuildId, bid: BuildId)
        requires 0 < k < fs.len(), same_producer(g, fs, k, u), gs::fid_ok(g, fs[k]), gs::files(g)[ix(fs[k])].input == Some(bid), u != bid
        ensures no_producer(g, fs, k + 1)
    {
        assert forall|b: BuildId| !#[trigger] same_producer(g, fs, k + 1, b) by {
            if b == bid { assert(gs::files(g)[ix(fs[0])].input == Some(u)); } else { assert(gs::files(g)[ix(fs[k])].input == Some(bid)); }
        }
    }
    /// Some(b) iff the record names at least one output and every named output is currently produced by b
    pub open spec fn applies_to(g: Graph, fs: Seq<FileId>, r: Option<BuildId>) -> bool {
        match r {
            Some(b) => fs.len() > 0 && same_producer(g, fs, fs.len() as int, b),
            None => fs.len() == 0 || no_producer(g, fs, fs.len() as int),
        }
    }

    // --- effect of loading records on the graph
    pub open spec fn gext(g0: Graph, g1: Graph) -> bool {
        g1.builds == g0.builds && gs::files_ext(gs::files(g0), gs::files(g1)) && gs::files(g1).len() < 0x1_0000_0000
    }
    pub proof fn lemma_gext_wf(g0: Graph, g1: Graph)
        requires gs::wf_graph(g0), gext(g0, g1)
        ensures gs::wf_graph(g1)
    {
        assert forall|b: int| 0 <= b < gs::builds(g1).len() implies gs::wf_build(#[trigger] gs::builds(g1)[b]) && gs::build_ids_ok(g1, gs::builds(g1)[b]) && gs::no_dup(gs::builds(g1)[b].outs.ids@) by {
            assert(gs::build_ids_ok(g0, gs::builds(g0)[b]));
        }
        assert forall|b: int, j: int| 0 <= b < gs::builds(g1).len() && 0 <= j < gs::builds(g1)[b].outs.ids@.len() implies
            gs::files(g1)[ix(#[trigger] gs::builds(g1)[b].outs.ids@[j])].input == Some(BuildId(b as u32)) by {
            assert(gs::build_ids_ok(g0, gs::builds(g0)[b]));
            assert(gs::fid_ok(g0, gs::builds(g0)[b].outs.ids@[j]));
            let _ = gs::files(g1)[ix(gs::builds(g1)[b].outs.ids@[j])];
        }
        assert forall|f: int| 0 <= f < gs::files(g1).len() implies match (#[trigger] gs::files(g1)[f]).input {
                Some(p) => ix(p) < gs::builds(g1).len() && gs::builds(g1)[ix(p)].outs.ids@.contains(FileId(f as u32)), None => true } by {
            if f < gs::files(g0).len() { assert(gs::files(g1)[f] == gs::files(g0)[f]); }
        }
        assert forall|f: int, k: int| 0 <= f < gs::files(g1).len() && 0 <= k < gs::files(g1)[f].dependents@.len() implies ix(#[trigger] gs::files(g1)[f].dependents@[k]) < gs::builds(g1).len() by {
            if f < gs::files(g0).len() { assert(gs::files(g1)[f] == gs::files(g0)[f]); }
        }
    }
    /// effect of a complete build record
    pub open spec fn build_applied(g0: Graph, h0: Hashes, g1: Graph, h1: Hashes, target: Option<BuildId>, deps: Seq<FileId>, hash: u64) -> bool {
        match target {
            None => g1 == g0 && h1.0@ == h0.0@,
            Some(b) => ix(b) < gs::builds(g0).len() && g1.files == g0.files && gs::builds(g1).len() == gs::builds(g0).len()
                && (forall|i: int| 0 <= i < gs::builds(g0).len() && i != ix(b) ==> #[trigger] gs::builds(g1)[i] == gs::builds(g0)[i])
                && gs::builds(g1)[ix(b)].discovered_ins@ == deps && gs::same_except_discovered(gs::builds(g1)[ix(b)], gs::builds(g0)[ix(b)])
                && h1.0@ == h0.0@.insert(b, crate::hash::BuildHash(hash)),
        }
    }

    pub open spec fn ids_in_range(s: Seq<u8>, cnt: int, n: int) -> bool {
        forall|j: int| 0 <= j < cnt && 3 * j + 3 <= s.len() ==> (#[trigger] id_at(s, j)) < n
    }
    pub open spec fn skip(s: Seq<u8>, n: int) -> Seq<u8> { s.subrange(n, s.len() as int) }
    /// the files named by the first cnt ids of s
    pub open spec fn files_of(m: IdMap, s: Seq<u8>, cnt: int) -> Seq<FileId> { Seq::new(cnt as nat, |j: int| fileids(m)[id_at(s, j) as int]) }
    /// every db id maps to a file of the graph
    pub open spec fn ids_files_ok(m: IdMap, g: Graph) -> bool { forall|i: int| 0 <= i < fileids(m).len() ==> gs::fid_ok(g, #[trigger] fileids(m)[i]) }
    pub open spec fn target_of(g: Graph, fs: Seq<FileId>) -> Option<BuildId> {
        if fs.len() == 0 { None } else if !gs::fid_ok(g, fs[0]) { None } else {
            match gs::files(g)[ix(fs[0])].input {
                Some(b) => if same_producer(g, fs, fs.len() as int, b) { Some(b) } else { None },
                None => None,
            }
        }
    }
    pub proof fn lemma_target_unique(g: Graph, fs: Seq<FileId>, r: Option<BuildId>)
        requires applies_to(g, fs, r)
        ensures r == target_of(g, fs)
    {
        match r {
            Some(b) => { assert(gs::fid_ok(g, fs[0]) && gs::files(g)[ix(fs[0])].input == Some(b)); }
            None => {
                if fs.len() > 0 && gs::fid_ok(g, fs[0]) {
                    match gs::files(g)[ix(fs[0])].input { Some(b) => { assert(!same_producer(g, fs, fs.len() as int, b)); } None => {} }
                }
            }
        }
    }
    pub proof fn lemma_id_at_skip(s: Seq<u8>, k: int)
        requires 0 <= k, 3 * k + 3 <= s.len()
        ensures id_at(s, k) == dec_u24(skip(s, 3 * k).subrange(0, 3))
    {
        assert(skip(s, 3 * k).subrange(0, 3) =~= s.subrange(3 * k, 3 * k + 3));
    }
    pub proof fn lemma_skip_skip(s: Seq<u8>, a: int, b: int)
        requires 0 <= a, 0 <= b, a + b <= s.len()
        ensures skip(skip(s, a), b) =~= skip(s, a + b)
    {}
    /// the stream requirements of a build record's body (after its leading u16)
    pub open spec fn build_body_ok(s: Seq<u8>, no: int, n: int) -> bool {
        ids_in_range(s, no, n) && (s.len() >= 3 * no + 2 ==> ids_in_range(skip(s, 3 * no + 2), dec_u16(s.subrange(3 * no, 3 * no + 2)) as int, n))
    }
    pub open spec fn build_body_len(s: Seq<u8>, no: int) -> int {
        if s.len() < 3 * no + 2 { -1 } else {
            let t = 3 * no + 2 + 3 * (dec_u16(s.subrange(3 * no, 3 * no + 2)) as int) + 8;
            if s.len() >= t { t } else { -1 }
        }
    }

    /// the reader's invariant: graph well formed, id map consistent, every db id names a file of the graph
    pub open spec fn rinv(m: IdMap, g: Graph) -> bool { gs::wf_graph(g) && idmap_inv(m) && ids_files_ok(m, g) }
    pub proof fn lemma_applied_wf(g0: Graph, h0: Hashes, g1: Graph, h1: Hashes, target: Option<BuildId>, deps: Seq<FileId>, hash: u64, m: IdMap)
        requires rinv(m, g0), build_applied(g0, h0, g1, h1, target, deps, hash), gs::ids_ok(g0, deps)
        ensures rinv(m, g1)
    {
        match target {
            None => {}
            Some(t) => {
                assert forall|b: int| 0 <= b < gs::builds(g1).len() implies gs::wf_build(#[trigger] gs::builds(g1)[b]) && gs::build_ids_ok(g1, gs::builds(g1)[b]) && gs::no_dup(gs::builds(g1)[b].outs.ids@) by {
                    assert(gs::wf_build(gs::builds(g0)[b]) && gs::build_ids_ok(g0, gs::builds(g0)[b]));
                    if b != ix(t) { assert(gs::builds(g1)[b] == gs::builds(g0)[b]); }
                }
                assert forall|b: int, j: int| 0 <= b < gs::builds(g1).len() && 0 <= j < gs::builds(g1)[b].outs.ids@.len() implies
                    gs::files(g1)[ix(#[trigger] gs::builds(g1)[b].outs.ids@[j])].input == Some(BuildId(b as u32)) by {
                    if b != ix(t) { assert(gs::builds(g1)[b] == gs::builds(g0)[b]); }
                    assert(gs::builds(g1)[b].outs == gs::builds(g0)[b].outs);
                }
                assert forall|f: int| 0 <= f < gs::files(g1).len() implies match (#[trigger] gs::files(g1)[f]).input {
                        Some(p) => ix(p) < gs::builds(g1).len() && gs::builds(g1)[ix(p)].outs.ids@.contains(FileId(f as u32)), None => true } by {
                    match gs::files(g0)[f].input { Some(p) => { if ix(p) != ix(t) { assert(gs::builds(g1)[ix(p)] == gs::builds(g0)[ix(p)]); } assert(gs::builds(g1)[ix(p)].outs == gs::builds(g0)[ix(p)].outs); } None => {} }
                }
            }
        }
    }
    pub proof fn lemma_files_of_ok(m: IdMap, g: Graph, s: Seq<u8>, cnt: int)
        requires ids_files_ok(m, g), ids_in_range(s, cnt, fileids(m).len() as int), 0 <= cnt, 3 * cnt <= s.len()
        ensures gs::ids_ok(g, files_of(m, s, cnt))
    {
        assert forall|j: int| 0 <= j < cnt implies gs::fid_ok(g, #[trigger] files_of(m, s, cnt)[j]) by { assert(id_at(s, j) < fileids(m).len()); }
    }

    // --- C07: what db::open leaves on disk
    /// F is a byte-prefix of some log n2 can write (the quantifier of C07)
    pub open spec fn log_prefix(f: Seq<u8>) -> bool {
        (f.len() < 8 ==> f.len() < 4 || f.subrange(0, 4) == crate::vx_utf8("n2db"@))
        && (f.len() >= 8 ==> f.subrange(0, 8) == signature() && wf_stream(skip(f, 8), 0))
    }
    /// the part of F that survives: header + complete records (nothing if the header itself is torn)
    pub open spec fn kept(f: Seq<u8>) -> Seq<u8> {
        if f.len() < 8 { signature() } else { f.take(8 + valid_len(skip(f, 8))) }
    }
    /// a log ending exactly at a record boundary: later appends are aligned and every later load succeeds
    pub open spec fn log_complete(c: Seq<u8>) -> bool {
        c.len() >= 8 && c.subrange(0, 8) == signature() && wf_stream(skip(c, 8), 0) && valid_len(skip(c, 8)) == c.len() - 8
    }
    pub proof fn lemma_valid_len_bound(s: Seq<u8>)
        ensures 0 <= valid_len(s) <= s.len()
        decreases s.len()
    {
        if rec_len(s) > 0 { lemma_valid_len_bound(s.subrange(rec_len(s), s.len() as int)); }
    }

    /// the first record of s is still the first record of any prefix of s that contains it
    pub proof fn lemma_prefix_rec(s: Seq<u8>, t: Seq<u8>, n: int)
        requires rec_len(s) > 0, rec_len(s) <= t.len() <= s.len(), t == s.take(t.len() as int)
        ensures rec_len(t) == rec_len(s), is_path_rec(t) == is_path_rec(s), rec_ids_ok(s, n) ==> rec_ids_ok(t, n),
            t.subrange(rec_len(s), t.len() as int) == s.subrange(rec_len(s), s.len() as int).take(t.len() - rec_len(s)),
    {
        let r = rec_len(s);
        assert(t.subrange(0, 2) =~= s.subrange(0, 2));
        let l = dec_u16(s.subrange(0, 2));
        if l & 0x8000 != 0 {
            let no = (l & 0x7fff) as int;
            assert(t.subrange(2 + 3 * no, 2 + 3 * no + 2) =~= s.subrange(2 + 3 * no, 2 + 3 * no + 2));
            if rec_ids_ok(s, n) {
                let bs = s.subrange(2, s.len() as int);
                let bt = t.subrange(2, t.len() as int);
                assert forall|j: int| 0 <= j < no && 3 * j + 3 <= bt.len() implies (#[trigger] id_at(bt, j)) < n by {
                    assert(bt.subrange(3 * j, 3 * j + 3) =~= bs.subrange(3 * j, 3 * j + 3));
                    assert(id_at(bs, j) < n);
                }
                let nd = dec_u16(s.subrange(2 + 3 * no, 2 + 3 * no + 2)) as int;
                let ds_ = s.subrange(2 + 3 * no + 2, s.len() as int);
                let dt = t.subrange(2 + 3 * no + 2, t.len() as int);
                assert forall|j: int| 0 <= j < nd && 3 * j + 3 <= dt.len() implies (#[trigger] id_at(dt, j)) < n by {
                    assert(dt.subrange(3 * j, 3 * j + 3) =~= ds_.subrange(3 * j, 3 * j + 3));
                    assert(id_at(ds_, j) < n);
                }
            }
        }
        assert(t.subrange(r, t.len() as int) =~= s.subrange(r, s.len() as int).take(t.len() - r));
    }
    /// cutting a (possibly torn) stream at its valid length leaves a stream of complete records only
    pub proof fn lemma_take_valid(s: Seq<u8>, n: int)
        requires wf_stream(s, n)
        ensures 0 <= valid_len(s) <= s.len(), wf_stream(s.take(valid_len(s)), n), valid_len(s.take(valid_len(s))) == valid_len(s)
        decreases s.len()
    {
        lemma_valid_len_bound(s);
        let v = valid_len(s);
        let t = s.take(v);
        if rec_len(s) > 0 {
            let r = rec_len(s);
            let rest = s.subrange(r, s.len() as int);
            let n2 = if is_path_rec(s) { n + 1 } else { n };
            lemma_take_valid(rest, n2);
            lemma_valid_len_bound(rest);
            let v2 = valid_len(rest);
            lemma_prefix_rec(s, t, n);
            assert(t.subrange(r, t.len() as int) =~= rest.take(v2));
            assert(wf_stream(t, n));
            assert(valid_len(t) == r + valid_len(t.subrange(r, t.len() as int)));
        } else {
            assert(t.len() == 0);
        }
    }
    /// C07: what db::open leaves on disk is a log that ends at a record boundary and that every later load accepts
    pub proof fn lemma_kept_complete(c: Seq<u8>)
        requires log_prefix(c)
        ensures log_complete(kept(c))
    {
        broadcast use crate::ax_sig_len;
        if c.len() < 8 {
            let k = signature();
            assert(k.len() == 8);
            assert(k.subrange(0, 8) =~= k);
            assert(skip(k, 8).len() == 0);
        } else {
            lemma_take_valid(skip(c, 8), 0);
            let v = valid_len(skip(c, 8));
            let k = c.take(8 + v);
            assert(k.subrange(0, 8) =~= c.subrange(0, 8));
            assert(skip(k, 8) =~= skip(c, 8).take(v));
        }
    }

    // --- C08: a build record decodes to what was encoded (per record; "a surviving record is never attributed ... with
    //     other content than was written")
    pub proof fn lemma_enc_ids_at(ids: Seq<Id>, j: int)
        requires 0 <= j < ids.len()
        ensures enc_ids(ids).len() == 3 * ids.len(), enc_ids(ids).subrange(3 * j, 3 * j + 3) == enc_u24(ids[j].0)
        decreases ids.len()
    {
        lemma_enc_ids_len(ids);
        lemma_enc_ids_len(ids.drop_last());
        if j < ids.len() - 1 {
            lemma_enc_ids_at(ids.drop_last(), j);
            assert(enc_ids(ids).subrange(3 * j, 3 * j + 3) =~= enc_ids(ids.drop_last()).subrange(3 * j, 3 * j + 3));
            assert(ids.drop_last()[j] == ids[j]);
        } else {
            assert(enc_ids(ids).subrange(3 * j, 3 * j + 3) =~= enc_u24(ids.last().0));
        }
    }
    /// the body of a build record (everything after the leading u16) followed by anything
    pub open spec fn build_body(outs: Seq<Id>, deps: Seq<Id>, hash: u64, rest: Seq<u8>) -> Seq<u8> {
        enc_ids(outs) + enc_u16(deps.len() as u16) + enc_ids(deps) + enc_u64(hash) + rest
    }
    pub proof fn lemma_build_roundtrip(outs: Seq<Id>, deps: Seq<Id>, hash: u64, rest: Seq<u8>)
        requires deps.len() <= 0xffff, forall|j: int| 0 <= j < outs.len() ==> (#[trigger] outs[j]).0 < 0x100_0000, forall|j: int| 0 <= j < deps.len() ==> (#[trigger] deps[j]).0 < 0x100_0000
        ensures ({ let s = build_body(outs, deps, hash, rest); let no = outs.len() as int; let nd = deps.len() as int;
            &&& forall|j: int| 0 <= j < no ==> #[trigger] id_at(s, j) == outs[j].0
            &&& dec_u16(s.subrange(3 * no, 3 * no + 2)) as int == nd
            &&& forall|j: int| 0 <= j < nd ==> #[trigger] id_at(skip(s, 3 * no + 2), j) == deps[j].0
            &&& dec_u64(s.subrange(3 * no + 2 + 3 * nd, 3 * no + 2 + 3 * nd + 8)) == hash
            &&& skip(s, 3 * no + 2 + 3 * nd + 8) == rest })
    {
        let s = build_body(outs, deps, hash, rest);
        let no = outs.len() as int; let nd = deps.len() as int;
        lemma_enc_ids_len(outs); lemma_enc_ids_len(deps);
        assert forall|j: int| 0 <= j < no implies #[trigger] id_at(s, j) == outs[j].0 by {
            lemma_enc_ids_at(outs, j);
            assert(s.subrange(3 * j, 3 * j + 3) =~= enc_ids(outs).subrange(3 * j, 3 * j + 3));
            lemma_u24_roundtrip(outs[j].0);
        }
        assert(s.subrange(3 * no, 3 * no + 2) =~= enc_u16(nd as u16));
        lemma_u16_roundtrip(nd as u16);
        let s1 = skip(s, 3 * no + 2);
        assert forall|j: int| 0 <= j < nd implies #[trigger] id_at(s1, j) == deps[j].0 by {
            lemma_enc_ids_at(deps, j);
            assert(s1.subrange(3 * j, 3 * j + 3) =~= enc_ids(deps).subrange(3 * j, 3 * j + 3));
            lemma_u24_roundtrip(deps[j].0);
        }
        assert(s.subrange(3 * no + 2 + 3 * nd, 3 * no + 2 + 3 * nd + 8) =~= enc_u64(hash));
        lemma_u64_roundtrip(hash);
        assert(skip(s, 3 * no + 2 + 3 * nd + 8) =~= rest);
    }
    }
}
