// ---- db spec vocabulary: the on-disk record format (DESIGN §6 C07/C08) ---------------------
pub mod ds {
    use vstd::prelude::*;
    use crate::graph::*;
    use crate::db::*;
    use crate::gs;
    use crate::vx_keys::{vx_ix, ix};
    verus! {
    broadcast use crate::vx_keys::group_keys;

    pub open spec fn enc_u16(n: u16) -> Seq<u8> { seq![(n & 0xff) as u8, (n >> 8) as u8] }
    pub open spec fn enc_u24(n: u32) -> Seq<u8> { seq![(n & 0xff) as u8, ((n >> 8) & 0xff) as u8, ((n >> 16) & 0xff) as u8] }
    pub open spec fn enc_u32(n: u32) -> Seq<u8> { seq![(n & 0xff) as u8, ((n >> 8) & 0xff) as u8, ((n >> 16) & 0xff) as u8, ((n >> 24) & 0xff) as u8] }
    pub open spec fn enc_u64(n: u64) -> Seq<u8> {
        seq![(n & 0xff) as u8, ((n >> 8) & 0xff) as u8, ((n >> 16) & 0xff) as u8, ((n >> 24) & 0xff) as u8,
             ((n >> 32) & 0xff) as u8, ((n >> 40) & 0xff) as u8, ((n >> 48) & 0xff) as u8, ((n >> 56) & 0xff) as u8]
    }
    pub open spec fn dec_u16(b: Seq<u8>) -> u16 { (b[0] as u16) | ((b[1] as u16) << 8) }
    pub open spec fn dec_u24(b: Seq<u8>) -> u32 { (b[0] as u32) | ((b[1] as u32) << 8) | ((b[2] as u32) << 16) }
    pub open spec fn dec_u32(b: Seq<u8>) -> u32 { (b[0] as u32) | ((b[1] as u32) << 8) | ((b[2] as u32) << 16) | ((b[3] as u32) << 24) }
    pub open spec fn dec_u64(b: Seq<u8>) -> u64 {
        (b[0] as u64) | ((b[1] as u64) << 8) | ((b[2] as u64) << 16) | ((b[3] as u64) << 24)
        | ((b[4] as u64) << 32) | ((b[5] as u64) << 40) | ((b[6] as u64) << 48) | ((b[7] as u64) << 56)
    }
    pub proof fn lemma_u16_roundtrip(n: u16)
        ensures dec_u16(enc_u16(n)) == n
    { assert(((n & 0xff) as u8 as u16) | (((n >> 8) as u8 as u16) << 8) == n) by (bit_vector); }
    pub proof fn lemma_u24_roundtrip(n: u32)
        requires n < 0x100_0000
        ensures dec_u24(enc_u24(n)) == n
    {
        assert(n < 0x100_0000 ==> (((n & 0xff) as u8 as u32) | ((((n >> 8) & 0xff) as u8 as u32) << 8) | ((((n >> 16) & 0xff) as u8 as u32) << 16)) == n) by (bit_vector);
    }
    pub proof fn lemma_u64_roundtrip(n: u64)
        ensures dec_u64(enc_u64(n)) == n
    {
        assert((((n & 0xff) as u8 as u64) | ((((n >> 8) & 0xff) as u8 as u64) << 8) | ((((n >> 16) & 0xff) as u8 as u64) << 16) | ((((n >> 24) & 0xff) as u8 as u64) << 24)
            | ((((n >> 32) & 0xff) as u8 as u64) << 32) | ((((n >> 40) & 0xff) as u8 as u64) << 40) | ((((n >> 48) & 0xff) as u8 as u64) << 48) | ((((n >> 56) & 0xff) as u8 as u64) << 56)) == n) by (bit_vector);
    }
    /// concatenated 3-byte encodings of a list of db ids
    pub open spec fn enc_ids(ids: Seq<Id>) -> Seq<u8>
        decreases ids.len()
    { if ids.len() == 0 { Seq::empty() } else { enc_ids(ids.drop_last()) + enc_u24(ids.last().0) } }
    pub proof fn lemma_enc_ids_len(ids: Seq<Id>)
        ensures enc_ids(ids).len() == 3 * ids.len()
        decreases ids.len()
    { if ids.len() > 0 { lemma_enc_ids_len(ids.drop_last()); } }

    /// a path record: u16 length (high bit clear) + the name's bytes
    pub open spec fn enc_path(name: Seq<u8>) -> Seq<u8> { enc_u16(name.len() as u16) + name }
    /// a build record: u16 (#outs | 0x8000), out ids, u16 #deps, dep ids, u64 hash
    pub open spec fn enc_build(outs: Seq<Id>, deps: Seq<Id>, hash: u64) -> Seq<u8> {
        enc_u16((outs.len() as u16) | 0x8000) + enc_ids(outs) + enc_u16(deps.len() as u16) + enc_ids(deps) + enc_u64(hash)
    }
    pub open spec fn signature() -> Seq<u8> { crate::vx_utf8("n2db"@) + enc_u32(1) }

    // --- IdMap
    pub open spec fn fileids(m: IdMap) -> Seq<FileId> { m.fileids.vec@ }
    /// every FileId the writer knows maps to a db id that maps back to it
    pub open spec fn idmap_inv(m: IdMap) -> bool {
        &&& fileids(m).len() <= 0x100_0000
        &&& forall|f: FileId| #[trigger] m.db_ids@.contains_key(f) ==> (m.db_ids@[f].0 as int) < fileids(m).len() && fileids(m)[m.db_ids@[f].0 as int] == f
    }

    pub open spec fn name_bytes(g: Graph, f: FileId) -> Seq<u8> { crate::vx_utf8(gs::files(g)[ix(f)].name@) }
    /// the path records for db ids from..to, in id order
    pub open spec fn paths_enc(g: Graph, fids: Seq<FileId>, from: int, to: int) -> Seq<u8>
        decreases to - from
    {
        if to <= from { Seq::empty() } else { paths_enc(g, fids, from, to - 1) + enc_path(name_bytes(g, fids[to - 1])) }
    }
    pub open spec fn names_short(g: Graph) -> bool {
        forall|f: int| 0 <= f < gs::files(g).len() ==> crate::vx_utf8((#[trigger] gs::files(g)[f]).name@).len() < 0x8000
    }
    pub open spec fn ids_map(m: IdMap, ids: Seq<Id>, fs: Seq<FileId>) -> bool {
        ids.len() == fs.len() && forall|j: int| 0 <= j < ids.len() ==> (#[trigger] ids[j]).0 < fileids(m).len() && fileids(m)[ids[j].0 as int] == fs[j]
            && m.db_ids@.contains_key(fs[j]) && m.db_ids@[fs[j]] == ids[j]
    }
    /// the db ids the writer assigns to a list of files
    pub open spec fn ids_of(m: IdMap, fs: Seq<FileId>) -> Seq<Id> { Seq::new(fs.len(), |j: int| m.db_ids@[fs[j]]) }
    pub open spec fn map_ext(a: IdMap, b: IdMap) -> bool {
        forall|f: FileId| #[trigger] a.db_ids@.contains_key(f) ==> b.db_ids@.contains_key(f) && b.db_ids@[f] == a.db_ids@[f]
    }
    pub open spec fn extends(a: Seq<FileId>, b: Seq<FileId>) -> bool { a.len() <= b.len() && b.subrange(0, a.len() as int) =~= a }
    pub proof fn lemma_paths_ext(g: Graph, a: Seq<FileId>, b: Seq<FileId>, from: int, to: int)
        requires extends(a, b), 0 <= from, to <= a.len()
        ensures paths_enc(g, a, from, to) == paths_enc(g, b, from, to)
        decreases to - from
    {
        if to > from {
            lemma_paths_ext(g, a, b, from, to - 1);
            assert(b.subrange(0, a.len() as int)[to - 1] == a[to - 1]);
        }
    }
    pub proof fn lemma_ids_map_ext(m0: IdMap, m1: IdMap, ids: Seq<Id>, fs: Seq<FileId>)
        requires ids_map(m0, ids, fs), extends(fileids(m0), fileids(m1)), map_ext(m0, m1)
        ensures ids_map(m1, ids, fs)
    {
        assert forall|j: int| 0 <= j < ids.len() implies (#[trigger] ids[j]).0 < fileids(m1).len() && fileids(m1)[ids[j].0 as int] == fs[j]
            && m1.db_ids@.contains_key(fs[j]) && m1.db_ids@[fs[j]] == ids[j] by {
            assert(fileids(m1).subrange(0, fileids(m0).len() as int)[ids[j].0 as int] == fileids(m0)[ids[j].0 as int]);
        }
    }

    pub proof fn lemma_paths_split(g: Graph, fids: Seq<FileId>, a: int, b: int, c: int)
        requires a <= b <= c
        ensures paths_enc(g, fids, a, c) == paths_enc(g, fids, a, b) + paths_enc(g, fids, b, c)
        decreases c - b
    {
        if c > b {
            lemma_paths_split(g, fids, a, b, c - 1);
            assert(paths_enc(g, fids, a, c) == paths_enc(g, fids, a, c - 1) + enc_path(name_bytes(g, fids[c - 1])));
            assert(paths_enc(g, fids, b, c) == paths_enc(g, fids, b, c - 1) + enc_path(name_bytes(g, fids[c - 1])));
            assert(paths_enc(g, fids, a, b) + (paths_enc(g, fids, b, c - 1) + enc_path(name_bytes(g, fids[c - 1])))
                =~= (paths_enc(g, fids, a, b) + paths_enc(g, fids, b, c - 1)) + enc_path(name_bytes(g, fids[c - 1])));
        } else {
            assert(paths_enc(g, fids, b, c) =~= Seq::<u8>::empty());
            assert(paths_enc(g, fids, a, b) + Seq::<u8>::empty() =~= paths_enc(g, fids, a, b));
        }
    }
    }
}
