// ---- trusted model of std::io used by db.rs (DESIGN §7) -----------------------------------
// vx_written(w): bytes appended through writer w so far.  vx_unread(r): bytes the reader has not consumed.
// vx_consumed(r): number of bytes consumed so far (what BufReader::stream_position reports).
verus! {
pub uninterp spec fn vx_written<W: ?Sized>(w: &W) -> Seq<u8>;
pub uninterp spec fn vx_unread<R: ?Sized>(r: &R) -> Seq<u8>;
pub uninterp spec fn vx_consumed<R: ?Sized>(r: &R) -> nat;
pub uninterp spec fn vx_kind(e: &std::io::Error) -> std::io::ErrorKind;
pub open spec fn vx_is_eof(e: &std::io::Error) -> bool { vx_kind(e) == std::io::ErrorKind::UnexpectedEof }

#[verifier::external_type_specification]
#[verifier::external_body]
pub struct ExIoError(std::io::Error);
#[verifier::external_type_specification]
pub struct ExErrorKind(std::io::ErrorKind);
#[verifier::external_type_specification]
#[verifier::external_body]
pub struct ExFile(std::fs::File);
#[verifier::external_type_specification]
#[verifier::external_body]
#[verifier::reject_recursive_types(R)]
pub struct ExBufReader<R: ?Sized>(std::io::BufReader<R>);

pub assume_specification [std::io::Error::kind](e: &std::io::Error) -> (r: std::io::ErrorKind)
    ensures r == vx_kind(e);
pub assume_specification [<std::io::Error as From<std::io::ErrorKind>>::from](k: std::io::ErrorKind) -> (r: std::io::Error)
    ensures vx_kind(&r) == k;
pub assume_specification [<std::io::ErrorKind as PartialEq>::eq](a: &std::io::ErrorKind, b: &std::io::ErrorKind) -> (r: bool)
    ensures r == (*a == *b);

#[verifier::external_trait_specification]
pub trait ExWrite {
    type ExternalTraitSpecificationFor: std::io::Write;
    /// all of buf is appended, or (error / crash) some prefix of it
    fn write_all(&mut self, buf: &[u8]) -> (r: std::io::Result<()>)
        ensures r is Ok ==> vx_written(final(self)) == vx_written(old(self)) + buf@,
            r is Err ==> exists|k: int| 0 <= k <= buf@.len() && #[trigger] vx_written(final(self)) == vx_written(old(self)) + buf@.subrange(0, k);
}
#[verifier::external_trait_specification]
pub trait ExSeek {
    type ExternalTraitSpecificationFor: std::io::Seek;
    /// ASSUMED: never fails; reports the bytes consumed so far (BufReader accounts for its buffer)
    fn stream_position(&mut self) -> (r: std::io::Result<u64>)
        ensures r is Ok, (match r { Ok(p) => p == vx_consumed(old(self)), Err(_) => true }),
            vx_unread(final(self)) == vx_unread(old(self)), vx_consumed(final(self)) == vx_consumed(old(self));
}
#[verifier::external_trait_specification]
pub trait ExRead {
    type ExternalTraitSpecificationFor: std::io::Read;
    /// ASSUMED: the only read failure is end of file (no I/O errors while loading the log)
    /// std documentation: `Ok(n)` guarantees `n <= buf.len()`; the buffer keeps its length
    fn read(&mut self, buf: &mut [u8]) -> (r: std::io::Result<usize>)
        ensures final(buf)@.len() == old(buf)@.len(), (match r { Ok(n) => n <= old(buf)@.len(), Err(_) => true });
    fn read_exact(&mut self, buf: &mut [u8]) -> (r: std::io::Result<()>)
        ensures final(buf)@.len() == old(buf)@.len(),
            r is Ok <==> old(buf)@.len() <= vx_unread(old(self)).len(),
            r is Ok ==> final(buf)@ == vx_unread(old(self)).subrange(0, old(buf)@.len() as int)
                && vx_unread(final(self)) == vx_unread(old(self)).subrange(old(buf)@.len() as int, vx_unread(old(self)).len() as int)
                && vx_consumed(final(self)) == vx_consumed(old(self)) + old(buf)@.len(),
            (match r { Err(e) => vx_is_eof(&e), Ok(_) => true });
}
#[verifier::external_trait_specification]
pub trait ExBufRead: std::io::Read {
    type ExternalTraitSpecificationFor: std::io::BufRead;
    /// ASSUMED: never fails; consumes nothing; returns a non-empty chunk of the unread bytes unless none are left
    fn fill_buf(&mut self) -> (r: std::io::Result<&[u8]>)
        ensures r is Ok, vx_unread(final(self)) == vx_unread(old(self)), vx_consumed(final(self)) == vx_consumed(old(self)),
            (match r { Ok(b) => (b@.len() == 0) == (vx_unread(old(self)).len() == 0) && b@.len() <= vx_unread(old(self)).len(), Err(_) => true });
}
}
verus! {
// `?` from io::Result into anyhow::Result (message dropped, R4/R7)
impl vstd::std_specs::convert::FromSpecImpl<std::io::Error> for crate::anyhow::Error {
    open spec fn obeys_from_spec() -> bool { false }
    open spec fn from_spec(v: std::io::Error) -> Self { arbitrary() }
}
impl From<std::io::Error> for crate::anyhow::Error {
    fn from(e: std::io::Error) -> (r: crate::anyhow::Error) { crate::anyhow::vx_error() }
}
}

// ---- trusted model of the log file itself (db::open) ---------------------------------------------------------
verus! {
/// bytes of the file on disk
pub uninterp spec fn fcontent(f: &std::fs::File) -> Seq<u8>;
/// the handle writes at the end of the file whatever its cursor says (O_APPEND), or it is a freshly created empty file
pub uninterp spec fn f_appends(f: &std::fs::File) -> bool;
/// a File opened for append: everything in it counts as written through it (appends go to the end)
pub broadcast axiom fn ax_written_file(f: &std::fs::File)
    requires f_appends(f)
    ensures #[trigger] vx_written(f) == fcontent(f);
/// R9 wrappers (trusted; contracts are the std documentation restricted to what db::open relies on)
/// what is on disk under a path when db::open is entered
pub uninterp spec fn disk(path: &std::path::Path) -> Seq<u8>;
#[verifier::external_body]
pub fn vx_open_rw_append(path: &std::path::Path) -> (r: std::io::Result<std::fs::File>)
    ensures r is Ok ==> fcontent(&r->Ok_0) == disk(path) && f_appends(&r->Ok_0)
{ std::fs::OpenOptions::new().read(true).append(true).open(path) }
/// read+write without append: writes land at the cursor, which reading moves; nothing is known about where they end up
#[verifier::external_body]
pub fn vx_open_rw(path: &std::path::Path) -> (r: std::io::Result<std::fs::File>)
    ensures r is Ok ==> fcontent(&r->Ok_0) == disk(path)
{ std::fs::OpenOptions::new().read(true).write(true).open(path) }
#[verifier::external_body]
pub fn vx_file_create(path: &std::path::Path) -> (r: std::io::Result<std::fs::File>)
    ensures r is Ok ==> fcontent(&r->Ok_0).len() == 0 && f_appends(&r->Ok_0)
{ std::fs::File::create(path) }
/// BufReader::new(&mut file) on a freshly opened file: reads start at offset 0; reading does not change the content
#[verifier::external_body]
pub fn vx_bufreader_new<'a>(f: &'a mut std::fs::File) -> (r: std::io::BufReader<&'a mut std::fs::File>)
    ensures vx_unread(&r) == fcontent(old(f)), vx_consumed(&r) == 0, fcontent(final(f)) == fcontent(old(f)), f_appends(final(f)) == f_appends(old(f))
{ std::io::BufReader::new(f) }
/// `r.by_ref().take(limit).read_to_end(buf)`: appends min(limit, unread) bytes to buf and reports how many;
/// running out of input is NOT an error here (std documentation of Take / read_to_end); same no-I/O-error assumption as ExRead
#[verifier::external_body]
pub fn vx_take_read_to_end<R: std::io::Read>(r: &mut R, limit: u64, buf: &mut Vec<u8>) -> (res: std::io::Result<usize>)
    ensures res is Ok,
        ({ let n = if (limit as int) < vx_unread(old(r)).len() { limit as int } else { vx_unread(old(r)).len() as int };
           res->Ok_0 == n && final(buf)@ == old(buf)@ + vx_unread(old(r)).subrange(0, n)
           && vx_unread(final(r)) == vx_unread(old(r)).subrange(n, vx_unread(old(r)).len() as int)
           && vx_consumed(final(r)) == vx_consumed(old(r)) + n }),
{ use std::io::Read; r.by_ref().take(limit).read_to_end(buf) }
#[verifier::external_body]
pub fn vx_file_len(f: &std::fs::File) -> (r: std::io::Result<u64>)
    ensures r is Ok ==> r->Ok_0 == fcontent(f).len()
{ Ok(f.metadata()?.len()) }
#[verifier::external_body]
pub fn vx_set_len(f: &mut std::fs::File, n: u64) -> (r: std::io::Result<()>)
    requires n <= fcontent(old(f)).len()
    ensures r is Ok ==> fcontent(final(f)) == fcontent(old(f)).take(n as int), r is Err ==> fcontent(final(f)) == fcontent(old(f)),
        f_appends(final(f)) == f_appends(old(f))
{ f.set_len(n) }
}

// ---- trusted model of stat (graph::stat): a file exists or not; if it does it has ONE modification time -------------
verus! {
#[verifier::external_type_specification]
#[verifier::external_body]
pub struct ExMetadata(std::fs::Metadata);
pub uninterp spec fn fs_exists(path: &std::path::Path) -> bool;
pub uninterp spec fn fs_mtime(path: &std::path::Path) -> std::time::SystemTime;
pub uninterp spec fn meta_mtime(m: &std::fs::Metadata) -> std::time::SystemTime;
/// ASSUMED: the only way std::fs::metadata fails is "no such file" (no permission / I/O errors while building)
#[verifier::external_body]
pub fn vx_fs_metadata(path: &std::path::Path) -> (r: std::io::Result<std::fs::Metadata>)
    ensures (match r { Ok(m) => fs_exists(path) && meta_mtime(&m) == fs_mtime(path), Err(e) => !fs_exists(path) && vx_kind(&e) == std::io::ErrorKind::NotFound })
{ std::fs::metadata(path) }
/// not used by the real code: the metadata of the path itself (a symbolic link is NOT followed), which says nothing about the
/// file it points to -- so a change that stats with this instead of fs::metadata is judged, not rejected as unsupported
#[verifier::external_body]
pub fn vx_fs_symlink_metadata(path: &std::path::Path) -> (r: std::io::Result<std::fs::Metadata>) { std::fs::symlink_metadata(path) }
#[verifier::external_body]
pub fn vx_meta_modified(m: &std::fs::Metadata) -> (r: std::io::Result<std::time::SystemTime>)
    ensures r is Ok, r->Ok_0 == meta_mtime(m)
{ m.modified() }
}

// `==` / `!=` on byte slices is element-wise equality (vstd routes it through PartialEqSpec, which it leaves
// unspecified for [u8]): trusted.
pub mod vx_slice_eq { use vstd::prelude::*; use vstd::std_specs::cmp::PartialEqSpec;
verus!{
pub broadcast axiom fn ax_obeys() ensures #[trigger] <[u8] as PartialEqSpec<[u8]>>::obeys_eq_spec();
pub broadcast axiom fn ax_eq(a: &[u8], b: &[u8]) ensures #[trigger] <[u8] as PartialEqSpec<[u8]>>::eq_spec(a, b) == (a@ == b@);
pub broadcast group g { ax_obeys, ax_eq }
}}
