#!/usr/bin/env python3
"""check.py <PROPERTY-ID> [--tier quick|thorough]

Decides one property of /verif/properties.jsonl on /repo's current working tree by
re-extracting the real functions, weaving the sidecar contracts and running the verifier.
exit 0: every obligation tagged for the property is discharged (KNOWN-FINDING lines allowed)
exit 1: `VIOLATION property=<id> replay=<path>` lines printed
exit 2: undecided (lost anchor, unsupported construct, tool failure) -- never an alarm
"""
import sys, os, json, re, time, tempfile, shutil, hashlib, argparse, subprocess
from concurrent.futures import ThreadPoolExecutor

VERIF = os.path.dirname(os.path.abspath(__file__))
sys.path.insert(0, VERIF)
from vx import unit as U
from vx import verus as V
from vx import kani as K
from vx.props import PROPS

KNOWN_FILE = os.path.join(VERIF, "KNOWN_FINDINGS.txt")


def load_known():
    known = []
    if os.path.exists(KNOWN_FILE):
        for ln in open(KNOWN_FILE):
            ln = ln.strip()
            m = re.match(r"known:\s+property=(\S+)\s+key=(\S+)\s+(.*)$", ln)
            if m:
                known.append({"prop": m.group(1), "key": m.group(2), "what": m.group(3)})
    return known


try:
    LOOPCOUNTS = json.load(open(os.path.join(os.path.dirname(os.path.abspath(__file__)), "specs", "loopcounts.json")))
except Exception:
    LOOPCOUNTS = {}


def key_matches(known_key, key):
    # known keys are written with spaces replaced by '_' and may be a prefix
    k = re.sub(r"\s+", "_", key)
    return k.startswith(known_key)


def count_obligations(info, extract_items):
    """measured obligation table: woven clauses + safety sites + call-site preconditions"""
    per_fn = {}
    for f in info["functions"]:
        per_fn[f["fn"]] = {"clauses": 0, "safety": 0, "callpre": 0, "props": f["props"], "contract": f["contract"]}
    for c in info["clauses"]:
        t = c["text"]
        if t.startswith("//") or t in ("requires", "ensures", "invariant", "decreases", "invariant_except_break") or t.endswith("=>") and len(t) < 8:
            continue
        if c["fn"] in per_fn:
            w = 2 if c["where"].startswith(("loop", "r6")) and not t.startswith(("decreases", "ensures")) else 1
            per_fn[c["fn"]]["clauses"] += w
    for fn, s in extract_items.items():
        if fn in per_fn and s:
            per_fn[fn]["safety"] = s.get("index", 0) + s.get("arith", 0) + s.get("unwrap", 0) + s.get("panic", 0)
            per_fn[fn]["callpre"] = s.get("calls", 0)
    return per_fn


def merge_args(extra, specargs):
    out, skip = [], False
    for k, a in enumerate(specargs):
        if skip:
            skip = False
            continue
        if a == "--rlimit" and "--rlimit" in extra:
            skip = True
            continue
        if a == "--verify-only-module" and "--verify-function" in extra:
            # a probe names its own module; Verus accepts only one --verify-only-module with --verify-function
            skip = True
            continue
        out.append(a)
    return out


def run_unit(specname, workdir, probe_fn=None, extra_args=()):
    spec = U.parse_spec(os.path.join(VERIF, "specs", specname + ".vx"))
    out = os.path.join(workdir, specname + ("" if probe_fn is None else "_p%s" % hashlib.md5(probe_fn.encode()).hexdigest()[:8]) + ".rs")
    res = U.build_unit(spec, out, probe_fn=probe_fn)
    r = V.run_verus(out, res["linemap"], res["info"], extra_args=list(extra_args) + merge_args(extra_args, spec.verus_args))
    names = U.missing_helpers(r.compile_errors)
    if names and probe_fn is None and not os.environ.get("VX_INLINE"):
        # R21: the unit calls helper functions that are not extracted; inline the one-expression ones and try again (once).
        # The setting stays for the rest of this process (the vacuity probes must see the same text).
        os.environ["VX_INLINE"] = ",".join(sorted(names))
        os.environ["VX_DEFS"] = ":".join(os.path.join(U.REPO, m.file) for m in spec.modules if m.file)
        U._extract_cache.clear()
        res = U.build_unit(spec, out, probe_fn=probe_fn)
        r = V.run_verus(out, res["linemap"], res["info"], extra_args=list(extra_args) + merge_args(extra_args, spec.verus_args))
    return spec, res, r


def safety_table(spec):
    tbl = {}
    for m in spec.modules:
        if not m.file:
            continue
        d = U.extract(m.file)
        for it in d["items"]:
            if it["kind"] == "fn":
                tbl["%s::%s" % (m.name, it["path"])] = it.get("safety")
    return tbl


def main():
    ap = argparse.ArgumentParser()
    ap.add_argument("prop")
    ap.add_argument("--tier", default=os.environ.get("VERIF_TIER", "quick"))
    ap.add_argument("--keep", action="store_true")
    a = ap.parse_args()
    pid = a.prop
    tier = a.tier if a.tier in ("quick", "thorough") else "quick"
    os.environ["VX_TIER"] = tier
    seed = int(os.environ.get("VERIF_SEED", "0") or 0)
    if pid not in PROPS:
        print("no check registered for %s" % pid)
        return 2
    cfg = PROPS[pid]
    t0 = time.time()
    work = tempfile.mkdtemp(prefix="vx_%s_" % pid)
    known = [k for k in load_known() if k["prop"] == pid]
    violations, known_hits, other_failures, undecided = [], [], [], []
    obligations = 0
    fn_under_contract, trusted, assumptions, samples = [], [], [], []
    solver_ms = 0
    backends = {}
    rule_counts = {}
    checker_cmds = []
    probes_run = 0
    bounded_notes = []
    spec_lemmas = set()
    try:
        # ---------------- Verus units
        for specname in cfg.get("units", []):
            try:
                spec, res, r = run_unit(specname, work)
            except U.Undecided as e:
                undecided.append("%s: %s" % (specname, e))
                continue
            info = res["info"]
            checker_cmds.append("verus %s.rs --output-json --time --multiple-errors 20 (unit generated from /repo working tree)" % specname)
            solver_ms += r.smt_ms
            if r.compile_errors:
                undecided.append("%s: verifier rejected the unit (not a proof failure): %s" % (specname, "; ".join(r.compile_errors[:3])))
                continue
            if r.undecided:
                # a resource limit / unsupported message concerns one function; proof failures Verus reports for the OTHER
                # functions of the unit are definite all the same (verification is per function) and are processed below
                undecided.append("%s: %s" % (specname, "; ".join(r.undecided[:3])))
                if not r.failures:
                    continue
            if r.verified + r.errors == 0:
                undecided.append("%s: verifier produced zero obligations (vacuity guard)" % specname)
                continue
            # rlimit / timeouts show up as failures without a proof-failure kind; verus.py filters
            tbl = count_obligations(info, safety_table(spec))
            failed_here = {}
            for f in r.failures:
                if pid in (f["props"] or []):
                    failed_here.setdefault(f["fn"], []).append(f)
                else:
                    other_failures.append({"unit": specname, "key": f["key"], "props": f["props"]})
            for fn, t in tbl.items():
                if pid in t["props"] or any(pid in c["props"] for c in info["clauses"] if c["fn"] == fn):
                    n = t["clauses"] + t["safety"] + t["callpre"]
                    obligations += n
                    fn_under_contract.append({"fn": fn, "unit": specname, "obligations": n,
                                              "clauses": t["clauses"], "safety_sites": t["safety"], "call_sites": t["callpre"],
                                              "contract": t["contract"],
                                              "solver_ms": next((v[0] for k, v in r.fn_times.items() if k.endswith(fn.split("::", 1)[-1])), None)})
                    backends["verus/z3"] = backends.get("verus/z3", 0) + n
            # spec-level lemmas of the preambles that Verus discharged in this unit (proof fns; they carry the unit's argument)
            for k, v in sorted(r.fn_times.items()):
                if "::lemma_" in k and v[1]:
                    spec_lemmas.add(k)
            for g in info.get("generated", []):
                bounded_notes.append("unit %s: generated check %s, bound %s, %s concrete inputs evaluated by Verus `by (compute)` -- bounded, cross-check only" % (specname, g.get("generator"), g.get("bound"), g.get("strings")))
            for c in info["clauses"]:
                if pid in c["props"] and len(samples) < 12 and not c["text"].startswith("//"):
                    samples.append("%s :: %s" % (c["fn"], c["text"][:160]))
            # a contracted function that has MORE loops than when its contract file was written (specs/loopcounts.json) has a
            # loop nobody wrote an invariant for: whatever fails inside it cannot be told apart from a harmless rewrite of
            # straight-line code into a loop -> undecided, never an alarm
            base_loops = LOOPCOUNTS.get(specname, {})
            for fi in info["functions"]:
                fnm = fi["fn"]
                if fnm in failed_here and fnm in base_loops and fi.get("n_loops", 0) > base_loops[fnm]:
                    undecided.append("%s: %s has %d loop(s), its contract file knows %d: a loop without invariant; %d failed obligation(s) inside it are not decidable"
                                     % (specname, fnm, fi.get("n_loops", 0), base_loops[fnm], len(failed_here[fnm])))
                    del failed_here[fnm]
            for f in sum(failed_here.values(), []):
                kh = [k for k in known if key_matches(k["key"], f["key"])]
                if kh:
                    known_hits.append((kh[0], f))
                else:
                    violations.append(("verus", specname, f))
            trusted += ["%s (unit %s): external_body stub with assumed contract" % (s, specname) for s in info["stubs"]]
            for k2, v2 in info["rule_counts"].items():
                rule_counts[k2] = rule_counts.get(k2, 0) + v2
            assumptions += ["%s: %s" % (specname, x) for x in spec.assumptions]
            # assumption scan of the generated unit
            txt = res["text"]
            for pat in ("assume(", "admit(", "assume_specification", "external_type_specification", "broadcast axiom", "axiom fn",
                        "exec_allows_no_decreases_clause", "#[verifier::truncate]", "external_trait_specification"):
                n = txt.count(pat)
                if n:
                    trusted.append("unit %s: %d x `%s`" % (specname, n, pat))
            # ---------------- vacuity probes
            probe_fns = [p for p in cfg.get("probes", {}).get(specname, [])]
            if tier == "thorough":
                probe_fns = [f["fn"] for f in info["functions"] if f["contract"] and pid in f["props"] and f["fn"] not in info["stubs"]
                             and f.get("has_body", True) and "<" not in f["fn"]]
            def do_probe(fn):
                try:
                    mod, _, rest = fn.partition("::")
                    # functions of nested source modules (terminal::unix::get_cols) are emitted flat in the unit's module
                    segs = rest.split("::")
                    while len(segs) > 1 and segs[0][:1].islower() and "<" not in segs[0]:
                        segs = segs[1:]
                    rest = "::".join(segs)
                    xa = ["--verify-only-module", mod, "--verify-function", rest] if "<" not in rest else []
                    # a contradictory contract proves `false` at once; a small resource limit keeps honest probes cheap
                    _, res2, r2 = run_unit(specname, work, probe_fn=fn, extra_args=xa + ["--rlimit", "4"])
                except U.Undecided as e:
                    return fn, None, str(e)
                not_proved = r2.errors >= 1 or len(r2.failures) > 0
                return fn, not_proved, "; ".join(r2.compile_errors[:2])
            if probe_fns:
                with ThreadPoolExecutor(max_workers=8) as ex:
                    for fn, ok, msg in ex.map(do_probe, probe_fns):
                        probes_run += 1
                        if ok is None or msg:
                            undecided.append("probe %s: %s" % (fn, msg))
                        elif not ok:
                            undecided.append("vacuity guard: `ensures false` verified for %s -- contradictory precondition/invariant; unit %s not believed" % (fn, specname))
        # ---------------- Kani harness groups
        for grp in cfg.get("kani", []):
            kr = K.run_group(grp, work, tier)
            checker_cmds.append(kr["cmd"])
            solver_ms += int(kr["wall_s"] * 1000)
            if kr["undecided"]:
                undecided += ["kani %s: %s" % (grp, u) for u in kr["undecided"]]
            obligations += kr["checks"]
            backends["kani/cbmc"] = backends.get("kani/cbmc", 0) + kr["checks"]
            bounded_notes += kr["bounds"]
            for h in kr["harnesses"]:
                fn_under_contract.append({"fn": h["target"], "unit": "kani:" + grp, "obligations": h["checks"], "harness": h["name"], "bounded": h["bound"], "solver_ms": int(h["wall_s"] * 1000)})
                if len(samples) < 16:
                    samples.append("kani %s :: %s" % (h["name"], h["bound"]))
            for f in kr["failures"]:
                kh = [k for k in known if key_matches(k["key"], f["key"])]
                if kh:
                    known_hits.append((kh[0], f))
                else:
                    violations.append(("kani", grp, f))
            trusted += kr["trusted"]
    finally:
        if not a.keep:
            shutil.rmtree(work, ignore_errors=True)
        else:
            print("kept work dir", work)
    wall = time.time() - t0
    # ---------------- report
    level = cfg.get("level", "proof")
    # obligations listed in KNOWN_FINDINGS.txt are reported separately (coverage.known_findings), not as discharged ones
    obligations = max(obligations - len(known_hits), 0)
    discharged = max(obligations - len(violations), 0)
    evdir = os.environ.get("VX_EVIDENCE_DIR") or os.path.join(VERIF, "evidence")
    os.makedirs(evdir, exist_ok=True)
    ev = {
        "property_id": pid, "tier": tier, "seed": seed, "level": level,
        "coverage": {
            "obligations": obligations, "discharged": discharged,
            "checker_cmd": " ; ".join(checker_cmds) or "none",
            "trusted_base": sorted(set(trusted)),
            "explanation": cfg.get("explanation", ""),
            "functions_under_contract": fn_under_contract,
            "obligations_by_backend": backends,
            "solver_ms": solver_ms,
            "rewrite_rule_applications": rule_counts,
            "vacuity_probes_run": probes_run,
            "bounded": bounded_notes,
            "spec_lemmas_verified": sorted(spec_lemmas),
            "samples": samples or ["(no clause tagged)"],
            "known_findings": [k["what"] for k, _ in known_hits],
            "other_failures_not_this_property": other_failures,
            "undecided": undecided,
            "obligation_counting_rule": "per function tagged for the property: woven clauses (loop invariants x2: entry+preservation) + syntactic safety sites (index, arithmetic, unwrap, panic/assert) + call sites (each is checked against the callee's requires); discharged = total - failed keys",
        },
        "assumptions": sorted(set(assumptions + cfg.get("assumptions", []))),
        "wall_s": round(wall, 2),
        "violations": len(violations),
    }
    with open(os.path.join(evdir, pid + ".json"), "w") as f:
        json.dump(ev, f, indent=1)
    for k, f in known_hits:
        print("KNOWN-FINDING: property=%s %s" % (pid, k["what"]))
    if undecided:
        for u in undecided:
            print("UNDECIDED: %s" % u)
    if violations:
        rdir = os.path.join(VERIF, "replays", pid)
        os.makedirs(rdir, exist_ok=True)
        for eng, unitname, f in violations:
            h = hashlib.sha1(f["key"].encode()).hexdigest()[:12]
            rp = os.path.join(rdir, h + ".json")
            cex = f.get("cex")
            with open(rp, "w") as fh:
                json.dump({"property": pid, "engine": eng, "unit": unitname, "obligation": f["key"], "function": f["fn"],
                           "kind": f["kind"], "clause": f.get("clause"), "expression": f.get("expr"),
                           "repo_origin": f.get("origin"), "verifier_output": f.get("rendered"),
                           "counterexample": cex, "replayed_on_real_code": f.get("replayed"),
                           "note": None if cex else "no-failing-input-found: the deductive verifier gives no model; this obligation was discharged on the unchanged tree"}, fh, indent=1)
            tail = "" if cex else " no-failing-input-found"
            print("VIOLATION property=%s replay=%s obligation=%s%s" % (pid, rp, re.sub(r"\s+", "_", f["key"])[:200], tail))
        return 1
    if undecided:
        return 2
    print("OK property=%s obligations=%d discharged=%d wall=%.1fs" % (pid, obligations, discharged, wall))
    return 0


if __name__ == "__main__":
    sys.exit(main())
